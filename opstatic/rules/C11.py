"""C11 - Command exclusivity and init/finalize pairing: lifecycle typestate in CommandManager.

R11a in _execute_uod_command the same-name cancel loop and the overlap cancel loop both dominate
     instance creation/lookup and every execute(); create_command is called only under
     `not has_command_instance(name)`; UnitOperationDefinitionBase.create_command refuses a second
     instance of a name.
R11b initialize() is called only under `not is_initialized()` and dominates every execute(); every
     finalize() in command_manager.py goes through _finalize_command or a `not is_finalized()` guard.
R11c instance leak: from the creation of a UOD command instance every path to an exit of
     _execute_uod_command (normal or raising) passes execute() (registered and executing) or a
     finalisation (_finalize_command / _cancel_command) - an instance is never left registered
     without running.
R11d finalize must-call dispose (UodCommand.finalize -> context.dispose_command, and
     InternalEngineCommand.finalize -> registry.dispose_command): a finalized instance is no longer
     found by has_command_instance.
R11e provenance: _finalize_command calls finalize() without testing is_finalized() itself (it only warns), which is safe only
     because every instance handed to it was just looked up in - or created into - the registries that finalize() removes
     instances from (registry.get_running_command, uod.get_command / create_command, create_internal_command; helper
     returns are followed). An instance taken from anywhere else (e.g. a reference kept on the request) can be a finalized
     one and is finalized twice. If _finalize_command becomes idempotent the provenance no longer matters.
R11d (extended) the dispose is reached even if the finalize callback raises (it sits in a `finally`).
R11f _cancel_command: from <command>.cancel() the finalisation is reached on every path when finalize is asked for, exceptional
     paths included (tracking may refuse to mark a user-started or forced instruction cancelled); and a uod request that is
     cancelled while it has no instance yet is retired instead of being left to start its command later in the same tick.
Decides the lifecycle structure; double finalisation under exceptions in UOD callbacks is not decided.
"""
from __future__ import annotations

import ast

from ..model import AnchorError, norm, walk_no_nested
from ..util import cfg_of, call_attr, node_calls
from ..cfg import facts_at

EXPLANATION = __doc__
CM = "openpectus.engine.command_manager:CommandManager"


def run(ctx) -> None:
    prog = ctx.prog
    for r, d in [("R11a", "cancel loops dominate creation and execution; single instance per name"),
                 ("R11b", "initialize once before execute; guarded finalize"),
                 ("R11c", "a created instance is executing or finalized on every exit"),
                 ("R11d", "finalize disposes the instance")]:
        ctx.rule(r, d)
    f = prog.func(f"{CM}._execute_uod_command")
    ctx.analysed(f)
    g = cfg_of(f)
    loops = [n for n in g.nodes if n.kind == "for" and "currently_executing" in norm(n.ast.iter)]
    if not loops:
        raise AnchorError("_execute_uod_command: no loop over the currently executing requests")
    # cancel sites inside those loops, classified by the condition under which they cancel
    from ..util import local_single_defs
    lsd = local_single_defs(f)
    same_loops, overlap_loops, relation = [], [], None
    rq = f.node.args.args[1].arg     # the request parameter (by position)
    for l in loops:
        lv = norm(l.ast.target)
        inside = {id(x) for x in ast.walk(l.ast)}
        for n in g.nodes:
            if n.ast is None or id(n.ast) not in inside or not any(call_attr(c) == "_cancel_command" and c.args and norm(c.args[0]) == lv
                                                                    for c in n.calls()):
                continue
            facts = facts_at(g, n, lsd)
            pos = {a for a, pol in facts if pol}
            if f"{lv}.name == {rq}.name" in pos or f"{rq}.name == {lv}.name" in pos:
                same_loops.append(l)
                continue
            # direct form: both names in the same declared overlap list
            ins = [a for a in pos if a.startswith(f"{lv}.name in ")]
            for a in ins:
                coll = a[len(f"{lv}.name in "):]
                if f"{rq}.name in {coll}" in pos:
                    # coll must be the loop variable of a loop over the declared lists
                    outer = [x for x in ast.walk(l.ast) if isinstance(x, ast.For) and norm(x.target) == coll
                             and "overlapping_command_names_lists" in norm(x.iter)]
                    if outer:
                        overlap_loops.append(l)
                elif coll in lsd or True:
                    # relation form: <coll> = self.uod.<lookup>(cmd_request.name)  /  self.uod.<attr>[cmd_request.name] / .get(...)
                    d = lsd.get(coll)
                    if d is not None and f"{rq}.name" in norm(d) and norm(d).startswith("self.uod."):
                        overlap_loops.append(l)
                        relation = d
    if not same_loops:
        ctx.fail("R11a", f, loops[0].ast, "_execute_uod_command: an executing request of the same name is cancelled",
                 "no `_cancel_command(c)` under `c.name == cmd_request.name` in a loop over the executing requests: two instances of "
                 "one command would execute")
    if not overlap_loops:
        ctx.fail("R11a", f, loops[0].ast, "_execute_uod_command: an executing request of an overlapping command is cancelled",
                 "no `_cancel_command(c)` under 'c.name and cmd_request.name are in one declared overlap list' (directly or through "
                 "a relation looked up on the uod) in a loop over the executing requests")
    if relation is not None:
        _check_overlap_relation(ctx, prog, f, relation)
    creates = [n for n in g.nodes if node_calls(n, "create_command")]
    gets = [n for n in g.nodes if any(call_attr(c) == "get_command" for c in n.calls())]
    execs = [n for n in g.nodes if any(call_attr(c) == "execute" for c in n.calls())]
    inits = [n for n in g.nodes if any(call_attr(c) == "initialize" for c in n.calls())]
    if not creates or not execs or not inits:
        raise AnchorError("_execute_uod_command: create_command / execute / initialize not found")
    for n in creates + gets + execs:
        for ls, what in ((same_loops, "same-name"), (overlap_loops, "overlap")):
            if not ls:
                continue
            inst = f"_execute_uod_command: {what} cancel loop dominates `{n.text()[:50]}`"
            if any(g.dominates(l, n) for l in ls):
                ctx.ok("R11a", inst)
            else:
                ctx.fail("R11a", f, n.ast, inst, f"a command can be created/executed without first cancelling an older {what} command: "
                         "two instances would execute in the same tick")
    for n in creates:
        facts = facts_at(g, n)
        inst = "_execute_uod_command: create_command only when no instance of that name exists"
        if any("has_command_instance(" in a and not pol for a, pol in facts):
            ctx.ok("R11a", inst)
        else:
            ctx.fail("R11a", f, n.ast, inst, "create_command not guarded by `not has_command_instance(name)`")
    cc = prog.func("openpectus.lang.exec.uod:UnitOperationDefinitionBase.create_command")
    ctx.analysed(cc)
    gc = cfg_of(cc)
    store = [n for n in gc.nodes if n.kind == "stmt" and isinstance(n.ast, ast.Assign) and "command_instances[" in norm(n.ast.targets[0])]
    if not store:
        raise AnchorError("create_command: store into command_instances not found")
    facts = facts_at(gc, store[0])
    if any("has_command_instance(" in a and not pol for a, pol in facts):
        ctx.ok("R11a", "create_command refuses a second instance of the same name")
    else:
        ctx.fail("R11a", cc, store[0].ast, "create_command refuses a second instance of the same name", "a second instance would silently replace the first")
    # ---- R11b
    for n in inits:
        facts = facts_at(g, n)
        inst = "_execute_uod_command: initialize() only when not is_initialized()"
        if any("is_initialized()" in a and not pol for a, pol in facts):
            ctx.ok("R11b", inst)
        else:
            ctx.fail("R11b", f, n.ast, inst, "a command instance can be initialised more than once")
    for n in execs:
        # every path to execute passes the `not is_initialized()` test node (initialised already, or initialise now)
        tests = [t for t in g.nodes if t.kind == "test" and "is_initialized()" in norm(t.ast)]
        inst = f"_execute_uod_command: `{n.text()[:50]}` preceded by the initialisation step"
        if tests and all(g.dominates(t, n) for t in tests[:1]):
            ctx.ok("R11b", inst)
        else:
            ctx.fail("R11b", f, n.ast, inst, "execute reachable without passing the initialisation step")
    cmmod = prog.module("openpectus.engine.command_manager")
    for fn in cmmod.classes["CommandManager"].methods.values():
        gg = cfg_of(fn)
        for n in gg.nodes:
            for c in n.calls():
                if call_attr(c) == "finalize" and isinstance(c.func, ast.Attribute) and not norm(c.func.value).startswith("super"):
                    ctx.analysed(fn)
                    inst = f"{fn.short}: {norm(c)} guarded"
                    facts = facts_at(gg, n)
                    ok = fn.name == "_finalize_command" or any("is_finalized()" in a and not pol for a, pol in facts)
                    if not ok and isinstance(c.func.value, ast.Name):
                        # a fresh instance: the receiver is a local assigned from a create_* call in this function, that assignment
                        # dominates the call, and no other call on the local that could finalize it (finalize/tick/cancel/
                        # _finalize_command/_cancel_command) lies on a path between them
                        rv = c.func.value.id
                        crs = [m_ for m_ in gg.nodes if m_.kind == "stmt" and isinstance(m_.ast, ast.Assign) and isinstance(m_.ast.targets[0], ast.Name)
                               and m_.ast.targets[0].id == rv and isinstance(m_.ast.value, ast.Call) and (call_attr(m_.ast.value) or "").startswith("create_")]
                        others = [m_ for m_ in gg.nodes if m_.id != n.id and m_.ast is not None and any(
                            (call_attr(x) in ("finalize", "tick", "cancel") and isinstance(x.func.value, ast.Name) and x.func.value.id == rv)
                            or (call_attr(x) in ("_finalize_command", "_cancel_command") and any(isinstance(a_, ast.Name) and a_.id == rv for a_ in x.args))
                            for x in m_.calls())]
                        def reach(x_, y_):
                            return gg.search([x_.id], lambda z: z.id == y_.id, follow_exc=True) is not None
                        between = len(crs) == 1 and any(reach(crs[0], o) and reach(o, n) for o in others)
                        if len(crs) == 1 and gg.dominates(crs[0], n) and not between:
                            ok = True
                            inst += " (fresh instance)"
                    if ok:
                        ctx.ok("R11b", inst)
                    else:
                        ctx.fail("R11b", fn, c, inst, "finalize() called without a not-yet-finalized guard: an instance could be finalized twice")
    # ---- R11e: what reaches the unguarded finalize in _finalize_command
    ctx.rule("R11e", "only instances looked up in the live registries reach a finalisation that is not guarded itself")
    from ..util import value_leaves
    cmcls = cmmod.classes["CommandManager"]
    fin = cmcls.methods.get("_finalize_command")
    if fin is None:
        raise AnchorError("CommandManager._finalize_command missing")
    gf = cfg_of(fin)
    fcalls = [(n, c) for n in gf.nodes for c in n.calls() if call_attr(c) == "finalize" and isinstance(c.func, ast.Attribute)]
    if not fcalls:
        raise AnchorError("_finalize_command: finalize() call not found")
    idempotent = all(any("is_finalized()" in a and not pol for a, pol in facts_at(gf, n)) for n, c in fcalls)
    LIVE = {"get_running_command", "get_command", "create_command", "create_internal_command"}
    n_sites = 0
    for fn in cmcls.methods.values():
        for c in walk_no_nested(fn.node):
            if isinstance(c, ast.Call) and call_attr(c) == "_finalize_command" and len(c.args) >= 2:
                n_sites += 1
                inst = f"{fn.short}: instance handed to _finalize_command is a live one"
                if idempotent:
                    ctx.ok("R11e", inst + " (finalisation is idempotent)", trivial=True)
                    continue
                stale = []
                for leaf, lf in value_leaves(ctx.res, c.args[1], fn, stop=lambda x: call_attr(x) in LIVE):
                    if isinstance(leaf, ast.Constant) and leaf.value is None:
                        continue
                    if isinstance(leaf, ast.Call) and call_attr(leaf) in LIVE:
                        continue
                    stale.append((leaf, lf))
                if not stale:
                    ctx.ok("R11e", inst)
                else:
                    leaf, lf = stale[0]
                    ctx.fail("R11e", fn, c, inst, f"the instance can come from `{norm(leaf)}` ({lf.short}), which is not a lookup in the registries "
                             "that finalize() removes instances from: it can be an instance that has already been finalized, and "
                             "_finalize_command calls finalize() on it again (it only warns)")
    if n_sites < 3:
        raise AnchorError(f"only {n_sites} _finalize_command call sites found (floor 3)")
    # ---- R11c
    def settles(n) -> bool:
        return any(call_attr(c) in ("execute", "_finalize_command", "_cancel_command", "finalize") for c in n.calls())
    def fresh_infeasible(nid, d, lab) -> bool:
        # typestate of a freshly created instance: not cancelled, not finalized, not initialised, not started
        nn = g.nodes[nid]
        if nn.kind != "test":
            return False
        t = norm(nn.ast)
        neg = t.startswith("not ")
        for q in ("is_cancelled()", "is_finalized()", "is_initialized()", "is_execution_started()", "is_execution_complete()"):
            if any(t in (f"{iv}.{q}", f"not {iv}.{q}") for iv in inst_vars):
                return lab == ("F" if neg else "T")
        return False
    # the local(s) holding the acquired instance (by role: assigned from create_command/get_command)
    inst_vars = {norm(n.ast.targets[0]) for n in creates + gets if isinstance(n.ast, ast.Assign) and len(n.ast.targets) == 1}
    if not inst_vars:
        raise AnchorError("_execute_uod_command: the local holding the command instance was not found")
    for n in creates:
        p = g.search([(n.id, "")], lambda x: x.id in (g.exit.id, g.raise_exit.id), blocked=settles, blocked_edge=fresh_infeasible)
        inst = "_execute_uod_command: a freshly created instance is executing or finalized on every exit"
        if p is None:
            ctx.ok("R11c", inst)
        else:
            ctx.fail("R11c", f, n.ast, inst,
                     "a path from create_command leaves the function (here by raising) with the new instance still registered in "
                     "uod.command_instances although it neither executes nor was finalized: it is not finalized when it fails - only if a later "
                     "request of that command or the end of the run happens to find it - and the next request of that command is used up on "
                     "the stale instance", p)
    # ---- R11d
    for qual, disp in (("openpectus.lang.exec.uod:UodCommand.finalize", "dispose_command"),
                       ("openpectus.engine.internal_commands:InternalEngineCommand.finalize", "dispose_command")):
        fn = prog.func(qual)
        ctx.analysed(fn)
        gg = cfg_of(fn)
        p = gg.path_to_exit_avoiding(None, lambda n: node_calls(n, disp))
        inst = f"{fn.short} must-call {disp}"
        if p is None:
            ctx.ok("R11d", inst)
        else:
            ctx.fail("R11d", fn, fn.node, inst, "a finalized command stays registered as a live instance", p)
        # ... also when the user's finalize callback raises: from the call of the callback every path, exceptional ones
        # included, reaches the dispose (a `finally`), otherwise the instance stays registered, later requests of the
        # command never execute and Stop finalizes it a second time
        cb = [n for n in gg.nodes if n.ast is not None and any(isinstance(c.func, ast.Attribute) and c.func.attr.endswith("_fn")
                                                               and isinstance(c.func.value, ast.Name) for c in n.calls())]
        for cbn in cb:
            inst = f"{fn.short}: {disp} is reached even if `{cbn.text()[:40]}` raises"
            p2 = gg.path_to_exit_avoiding([cbn.id], lambda n: node_calls(n, disp), follow_exc=True, include_raise=True)
            if p2 is None:
                ctx.ok("R11d", inst)
            else:
                ctx.fail("R11d", fn, cbn.ast, inst, "an exception from the finalize callback skips the dispose: the finalized instance stays "
                         "registered, later requests of the command find it and never execute, and it is finalized again when the run stops", p2)
    # ---- R11f: cancelling always finalizes and retires
    ctx.rule("R11f", "a cancelled command is finalized whatever tracking says; a request cancelled before it started is retired")
    cnf = prog.func(f"{CM}._cancel_command")
    ctx.analysed(cnf)
    gc_ = cfg_of(cnf)
    cancels = [n for n in gc_.nodes if n.ast is not None and any(call_attr(c) == "cancel" and isinstance(c.func, ast.Attribute)
                                                                 and isinstance(c.func.value, ast.Name) for c in n.calls())]
    if not cancels:
        raise AnchorError("_cancel_command: <command>.cancel() not found")
    fpar = cnf.node.args.args[2].arg if len(cnf.node.args.args) > 2 else "finalize"

    def not_asked(sid, d, lab):
        nn = gc_.nodes[sid]
        return nn.kind == "test" and norm(nn.ast) == fpar and lab == "F"
    inst = "_cancel_command: finalisation is reached from <command>.cancel() on every path, exceptional ones included"
    p3 = gc_.search([cancels[0].id], lambda n: n.id in (gc_.exit.id, gc_.raise_exit.id), blocked=lambda n: node_calls(n, "_finalize_command"),
                    blocked_edge=not_asked, follow_exc=True)
    if p3 is None:
        ctx.ok("R11f", inst)
    else:
        ctx.fail("R11f", cnf, cancels[0].ast, inst, "an exception after the command was cancelled (tracking refuses to mark a user-started or a "
                 "forced instruction cancelled) skips the finalisation: the command is flagged cancelled but stays registered and its "
                 "request stays live - the superseding command runs beside it, is cancelled by it, or the instance survives Stop", p3)
    lookup = [n for n in gc_.nodes if n.kind == "test" and any(isinstance(x, ast.Name) for x in ast.walk(n.ast)) and "is None" in norm(n.ast)
              or (n.kind == "test" and norm(n.ast).endswith("is not None"))]
    none_tests = [n for n in gc_.nodes if n.kind == "test" and isinstance(n.ast, ast.Compare) and isinstance(n.ast.ops[0], (ast.Is, ast.IsNot))
                  and isinstance(n.ast.comparators[0], ast.Constant) and n.ast.comparators[0].value is None
                  and any(gc_.edge_dominates(n.id, "T" if isinstance(n.ast.ops[0], ast.IsNot) else "F", cancels[0].id) for _ in [0])]
    inst = "_cancel_command: a uod request cancelled before its command started is retired"
    if not none_tests:
        raise AnchorError("_cancel_command: the `no instance` branch was not recognised")
    nt = none_tests[0]
    none_lab = "F" if isinstance(nt.ast.ops[0], ast.IsNot) else "T"

    def non_uod(sid, d, lab):
        nn = gc_.nodes[sid]
        # the false outcome of the has_command_name test itself (in a conjunction the false outcome says nothing about it)
        return nn.kind == "test" and isinstance(nn.ast, ast.Call) and call_attr(nn.ast) == "has_command_name" and lab == "F"
    p4 = gc_.search([(nt.id, none_lab)], lambda n: n.id == gc_.exit.id, blocked=lambda n: node_calls(n, "_executing_command_done"),
                    blocked_edge=non_uod, follow_exc=False)
    if p4 is None:
        ctx.ok("R11f", inst)
    else:
        ctx.fail("R11f", cnf, nt.ast, inst, "a request that is cancelled while it has no instance yet (it arrived in the same tick as the request "
                 "that supersedes it) stays in the executing list: later in the tick it starts its command after all and cancels the "
                 "newer one - two instances of a command (or of an overlap group) execute in one tick and the older request wins", p4)


def _check_overlap_relation(ctx, prog, f, lookup: ast.AST) -> None:
    """The overlap test goes through a relation kept on the uod (`self.uod.<method>(name)` / `self.uod.<attr>[name]`).
    The relation must be *the declared one*: built from overlapping_command_names_lists by accumulation, so that a command
    declared in several overlap groups overlaps with the members of all of them."""
    uod = prog.cls("openpectus.lang.exec.uod:UnitOperationDefinitionBase")
    attr = None
    if isinstance(lookup, ast.Call) and isinstance(lookup.func, ast.Attribute):
        m = uod.find_method(lookup.func.attr)
        if m is None:
            # self.uod.<attr>.get(name, ...)
            if isinstance(lookup.func.value, ast.Attribute) and lookup.func.attr == "get":
                attr = lookup.func.value.attr
            else:
                raise AnchorError(f"overlap relation lookup `{norm(lookup)}` not understood")
        else:
            ctx.analysed(m)
            for r in walk_no_nested(m.node):
                if isinstance(r, ast.Return) and r.value is not None:
                    for x in ast.walk(r.value):
                        if isinstance(x, ast.Attribute) and isinstance(x.value, ast.Name) and x.value.id == "self":
                            attr = x.attr
            if attr is None:
                raise AnchorError(f"{m.short}: returned relation attribute not found")
    elif isinstance(lookup, ast.Subscript) and isinstance(lookup.value, ast.Attribute):
        attr = lookup.value.attr
    else:
        raise AnchorError(f"overlap relation lookup `{norm(lookup)}` not understood")
    writers = 0
    for fn in uod.methods.values():
        for n in ast.walk(fn.node):
            tgt = None
            if isinstance(n, ast.Assign) and len(n.targets) == 1:
                tgt = n.targets[0]
            elif isinstance(n, ast.AugAssign):
                tgt = n.target
            if not (isinstance(tgt, ast.Subscript) and isinstance(tgt.value, ast.Attribute) and tgt.value.attr == attr):
                continue
            writers += 1
            inst = f"{fn.short}: {norm(n)[:90]}"
            in_lists_loop = any(isinstance(lp, ast.For) and "overlapping_command_names_lists" in norm(lp.iter) and any(x is n for x in ast.walk(lp))
                                for lp in ast.walk(fn.node))
            accumulating = isinstance(n, ast.AugAssign) and isinstance(n.op, ast.BitOr) or (
                isinstance(n, ast.Assign) and f"self.{attr}" in norm(n.value))
            if not in_lists_loop:
                ctx.fail("R11a", fn, n, inst, "the overlap relation is written outside a loop over the declared overlap lists")
            elif not accumulating:
                ctx.fail("R11a", fn, n, inst, "the overlap relation is built by plain assignment inside the loop over the declared overlap "
                         "lists: a command declared in several overlap groups keeps only the last group, so an executing command of "
                         "an earlier group is not cancelled and both execute in the same tick")
            else:
                ctx.ok("R11a", inst)
        for n in ast.walk(fn.node):
            if isinstance(n, ast.Call) and isinstance(n.func, ast.Attribute) and n.func.attr in ("update", "add") \
                    and f"self.{attr}" in norm(n.func.value):
                writers += 1
                ctx.ok("R11a", f"{fn.short}: {norm(n)[:90]}")
    if writers == 0:
        ctx.fail("R11a", f, lookup, f"overlap relation self.uod.{attr}", "the relation consulted for overlaps is never filled from the "
                 "declared overlap lists")
