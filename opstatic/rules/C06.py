"""C06 - Run state and System State always agree; control commands gated: finite abstract interpretation.

The run-state machine is *extracted* (opstatic.runstate): Engine.tick, the _run/cancel methods of the
seven control command classes and Engine._validate_control_command are interpreted over the domain
{started, paused, holding, stopping} x System State x Run Id x in-flight commands x one pending
user request; all sequences of user requests (accepted per the extracted gating predicate) and
method-scheduled commands at all ticks are explored to a fix-point (finite domain => all lengths).
R06a invariant at every tick boundary: started <=> System State != Stopped (and then no paused/holding flag is left); if started, System State
     is Restarting (only while a Restart is in flight) or else Paused if paused, else Holding if
     holding, else Running; Run Id set <=> started.
R06b gating: for every reachable state and each of the 7 commands, _validate_control_command accepts
     exactly when the command is valid: Start iff Stopped; the others iff a run is active (not
     Stopped/Restarting), and Pause/Unpause/Hold/Unhold additionally iff not paused / paused /
     not holding / holding.
R06c the run id is minted from uuid4 in set_run_id; the control-state message reports exactly the
     three flags.
R06e no run, no run state: explored *with* hardware/interpreter faults (exact scheduler, two requests per gap), every state without a
     run (and without a Restart in its gap) has System State Stopped and neither the paused nor the holding flag - an error must not
     "pause" an engine that has no run (Start would be refused, Unpause/Hold/Restart accepted).
thorough tier additionally explores with hardware/interpreter faults (set_error_state) and all ghost
variables and records Inv-breaking fault states as observations (outside the property's quantifier).
Assumes the command scheduling read off CommandManager (newest request first, one step per tick).
R06f a run is started only when none is active (siblings): every call of `set_run_id()` in the internal commands - the places that begin
     a run: Start, and the last segment of Restart - is dominated by the false outcome of a test of `_runstate_started`. The tick
     between Restart's second and third segment is a Stopped tick in which a user Start is valid; an unguarded third segment starts
     a second run on top of it and takes its run id away without ending it (3 on_start against 1 on_stop).
"""
from __future__ import annotations

import ast

from ..model import AnchorError, norm, walk_no_nested
from ..runstate import Explorer, Explorers, CONTROL, show, sd, CALL_MODEL
from ..util import call_attr

EXPLANATION = __doc__


def expected_sys(d) -> set[str]:
    if not d["started"]:
        return {"Stopped"}
    if d["if_Restart"] is not None and d["stopping"]:
        # a restart is under way (its first step has run: stopping is set until the old run has ended): the tag says so, and the
        # control commands that are invalid during a restart stay invalid
        return {"Restarting"}
    base = "Paused" if d["paused"] else "Holding" if d["holding"] else "Running"
    out = {base}
    if d["if_Restart"] is not None:
        out.add("Restarting")
    return out


def spec_accept(d, name: str) -> bool:
    active = d["sys"] not in ("Stopped", "Restarting")
    if name == "Start":
        return d["sys"] == "Stopped"
    if name in ("Stop", "Restart"):
        return active
    if name == "Pause":
        return active and not d["paused"]
    if name == "Unpause":
        return active and d["paused"]
    if name == "Hold":
        return active and not d["holding"]
    if name == "Unhold":
        return active and d["holding"]
    raise AssertionError(name)


def run(ctx) -> None:
    _r06f(ctx)
    prog = ctx.prog
    for r, dsc in [("R06a", "state invariant at every tick boundary"), ("R06b", "gating table"),
                   ("R06c", "run id minted from uuid4; control-state message fields")]:
        ctx.rule(r, dsc)
    ex = Explorer(ctx, faults=False, track=())
    ex.explore()
    for q in sorted(ex.it.inlined):
        ctx.functions_analysed.add(q)
    ctx.analysed(ex.tick)
    ctx.analysed(ex.validate)
    ctx.extra["states"] = len(ex.reach)
    ctx.extra["transitions"] = ex.edges
    ctx.extra["call_model"] = CALL_MODEL
    ctx.assumptions = ["command scheduling as in CommandManager.execute_commands: requests dequeued at the next tick, newest "
                       "first, one generator step per tick; user requests validated at request time",
                       "calls outside the domain have only the effects listed in call_model"]
    bad_inv = {}
    bad_gate = {}
    n_gate = 0
    for s in ex.reach:
        d = sd(s)
        probs = []
        if d["sys"] not in expected_sys(d):
            probs.append(f"System State is {d['sys']} but flags started={d['started']} paused={d['paused']} holding={d['holding']} "
                         f"require {sorted(expected_sys(d))}")
        if not d["started"] and d["if_Restart"] is None and (d["paused"] or d["holding"] or d["stopping"]):
            probs.append(f"no run is active but the reported control state still has paused={d['paused']} holding={d['holding']} "
                         f"stopping={d['stopping']}")
        if (d["run_id"] == "set") != d["started"]:
            probs.append(f"Run Id is {'set' if d['run_id'] else 'empty'} while started={d['started']}")
        if probs:
            key = (d["started"], d["paused"], d["holding"], d["sys"], d["run_id"])
            if key not in bad_inv:
                bad_inv[key] = (s, probs)
        if d["pend"] is None:
            for name in CONTROL:
                n_gate += 1
                a = ex.accepted(s, name)
                if a != spec_accept(d, name):
                    key = (name, a, d["sys"], d["paused"], d["holding"])
                    if key not in bad_gate:
                        bad_gate[key] = s
    if not bad_inv:
        ctx.ok("R06a", f"invariant holds in all {len(ex.reach)} reachable states",
               {"rule": "R06a", "states": len(ex.reach), "sample_states": [show(s) for s in list(ex.reach)[:6]]})
    for key, (s, probs) in bad_inv.items():
        last = [l for l in ex.trace(s) if l != "tick"][-1:] or ["engine start"]
        ctx.fail("R06a", ex.tick, ex.tick.node, f"reachable state started={key[0]} paused={key[1]} holding={key[2]} sys={key[3]} run_id={key[4]}",
                 "; ".join(probs) + f" | shortest history: {' > '.join(ex.trace(s))} | state: {show(s)}",
                 function="openpectus.engine.internal_commands_impl (run-state machine)")
    if not bad_gate:
        ctx.ok("R06b", f"gating agrees with the validity table on {n_gate} (state, command) pairs",
               {"rule": "R06b", "pairs": n_gate})
    for key, s in bad_gate.items():
        name, a, sysv, pa, ho = key
        ctx.fail("R06b", ex.validate, ex.validate.node, f"_validate_control_command: {name} in sys={sysv} paused={pa} holding={ho}",
                 f"user command {name} is {'accepted' if a else 'refused'} in this state although it is "
                 f"{'not ' if a else ''}valid | history: {' > '.join(ex.trace(s))}")
    # ---- R06d: the same invariant when two user requests are accepted in one inter-tick gap (both validated against the
    # same state, executed in the order the extracted policy gives) - together with a same-named request from the method
    # a command can complete within one tick and a request queued behind it runs after the run has ended
    ctx.rule("R06d", "state invariant with two user requests accepted between two ticks")
    # coarse scheduler (commands may stall) with two requests per gap, and the exact scheduler of execute_commands with two
    # (quick) or three (thorough) requests per gap
    ex2 = Explorers(Explorer(ctx, faults=False, track=(), max_pending=2),
                    Explorer(ctx, faults=False, track=(), max_pending=3 if ctx.tier == "thorough" else 2, exact=True))
    ex2.explore()
    ctx.extra["states_two_requests"] = len(ex2.reach)
    bad2 = {}
    for s in ex2.reach:
        d = sd(s)
        probs = []
        if d["sys"] not in expected_sys(d):
            probs.append(f"System State is {d['sys']} but flags started={d['started']} paused={d['paused']} holding={d['holding']} "
                         f"require {sorted(expected_sys(d))}")
        if not d["started"] and d["if_Restart"] is None and (d["paused"] or d["holding"] or d["stopping"]):
            probs.append(f"no run is active but paused={d['paused']} holding={d['holding']} stopping={d['stopping']}")
        if (d["run_id"] == "set") != d["started"]:
            probs.append(f"Run Id is {'set' if d['run_id'] else 'empty'} while started={d['started']}")
        if probs and s not in ex.reach:
            key = (d["started"], d["paused"], d["holding"], d["sys"], d["run_id"])
            if key not in bad2:
                bad2[key] = (s, probs)
    if not bad2:
        ctx.ok("R06d", f"invariant holds in all {len(ex2.reach)} states reachable with two requests per tick gap",
               {"rule": "R06d", "states": len(ex2.reach)})
    for key, (s, probs) in bad2.items():
        ctx.fail("R06d", ex2.tick, ex2.tick.node,
                 f"reachable state (two requests in one tick gap) started={key[0]} paused={key[1]} holding={key[2]} sys={key[3]} run_id={key[4]}",
                 "; ".join(probs) + f" | shortest history: {' > '.join(ex2.trace(s))} | state: {show(s)}",
                 function="openpectus.engine.internal_commands_impl (run-state machine)")
    ctx.obligations += len(ex2.reach)
    ctx.discharged += len(ex2.reach) - len(bad2)
    ctx.obligations += len(ex.reach) + n_gate
    ctx.discharged += len(ex.reach) + n_gate - len(bad_inv) - len(bad_gate)
    # per-command segment table for the evidence
    seg = {}
    for name in CONTROL:
        seg[name] = {"yield_points": len(ex.b.yields[name])}
    ctx.extra["segments"] = seg
    # ---- R06c
    sr = prog.func("openpectus.engine.engine:Engine.set_run_id")
    ctx.analysed(sr)
    txt = norm(sr.node)
    if "uuid.uuid4()" in txt or "uuid4()" in txt:
        ctx.ok("R06c", "set_run_id mints the id from uuid4()")
    else:
        ctx.fail("R06c", sr, sr.node, "set_run_id mints the id from uuid4()", "run id is not a fresh uuid")
    cm = prog.func("openpectus.engine.engine_message_builder:EngineMessageBuilder.create_control_state_msg")
    ctx.analysed(cm)
    want = {"is_running": "_runstate_started", "is_holding": "_runstate_holding", "is_paused": "_runstate_paused"}
    got = {}
    for c in walk_no_nested(cm.node):
        if isinstance(c, ast.Call) and call_attr(c) == "ControlState":
            for k in c.keywords:
                got[k.arg] = norm(k.value).split(".")[-1]
    for k, v in want.items():
        if got.get(k) == v:
            ctx.ok("R06c", f"control state message: {k} = engine.{v}")
        else:
            ctx.fail("R06c", cm, cm.node, f"control state message: {k} = engine.{v}", f"reports {got.get(k)}")
    if len(ex.reach) < 100:
        raise AnchorError(f"run-state exploration found only {len(ex.reach)} states (floor 100): the model collapsed")
    # ---- R06e
    ctx.rule("R06e", "no run, no run state - also after an error")
    exf = Explorer(ctx, faults=True, track=("err",), max_pending=2, exact=True)
    exf.explore()
    badf = None
    for s in exf.reach:
        d = sd(s)
        if d["pend"] is not None or d["started"] or d["if_Restart"] is not None:
            continue
        if d["sys"] != "Stopped" or d["paused"] or d["holding"]:
            badf = s
            break
    inst = "with no run active System State is Stopped and no pause/hold flag is set, whatever failed before"
    if badf is None:
        ctx.ok("R06e", inst, {"rule": "R06e", "states_with_faults": len(exf.reach)})
    else:
        ctx.fail("R06e", ex.tick, ex.tick.node, inst, "an error while no run is active (a failed hardware read while idle, a failed write in the "
                 "tick that completes Stop, a user command with unparsable arguments while stopped) pauses 'the run': System State Paused and "
                 "is_paused with is_running False and no Run Id - Start is refused (state is not Stopped) while Unpause, Stop, Hold and Restart "
                 f"are accepted with no run | history: {' > '.join(exf.trace(badf))} | state: {show(badf)}",
                 function="openpectus.engine.internal_commands_impl (run-state machine)")


def audit(ctx):
    """thorough: exploration with faults and all ghost variables; Inv-breaking states are observations."""
    ex = Explorer(ctx, faults=True)
    ex.explore()
    obs = {}
    for s in ex.reach:
        d = sd(s)
        if d["sys"] not in expected_sys(d) or (d["run_id"] == "set") != d["started"]:
            key = (d["started"], d["paused"], d["holding"], d["sys"], d["err"])
            if key not in obs:
                obs[key] = {"state": show(s), "history": ex.trace(s)}
    return {"with_faults_states": len(ex.reach), "with_faults_transitions": ex.edges,
            "observations_outside_quantifier": list(obs.values())[:12],
            "note": "states that break the invariant only after set_error_state (err=True) are outside the property's "
                    "quantifier (control commands only) and are recorded, not reported"}



def _r06f(ctx) -> None:
    import ast as _ast
    from ..util import cfg_of as _cfg, call_attr as _ca
    from ..model import norm as _norm
    prog = ctx.prog
    ctx.rule("R06f", "every run start is guarded by `not _runstate_started`")
    impl = prog.module("openpectus.engine.internal_commands_impl")
    n = 0
    for cls in impl.classes.values():
        f = cls.methods.get("_run")
        if f is None:
            continue
        g = _cfg(f)
        for nd in g.nodes:
            if not any(_ca(c) == "set_run_id" for c in nd.calls()):
                continue
            n += 1
            ctx.analysed(f)
            inst = f"{cls.name}._run: set_run_id() only when no run is active"
            ok = any(_norm(t).endswith("._runstate_started") and not pol for t, pol in g.conditions_at(nd))
            if ok:
                ctx.ok("R06f", inst)
            else:
                ctx.fail("R06f", f, nd.ast, inst, "a run is started without asking whether one is active: a user Start accepted in the Stopped tick "
                         "of a restart has begun a run, this segment begins another in the same tick - the first run is never ended and "
                         "its run id is overwritten, not cleared")
    ctx.floor("R06f", 2)
