"""C22 - Command argument patterns accept exactly their documented language: regex-language analysis.

The templates returned by RegexNumber / RegexCategorical (lang/exec/regex.py) are obtained by partial
evaluation of the functions' source with placeholder symbols for the interpolated unit/option lists
(one abstract symbol each); the resulting patterns are turned into automata (opstatic.regexlang) over
the abstract alphabet {digit, '.', '-', '+', space, exclusive option, additive option, unit, other}.
R22a categorical language: for the three instantiation shapes (exclusive only, additive only, both)
     the accepted language equals `E | A(+A)*` followed by optional whitespace; in particular the
     empty value, a leading '+' and a doubled '+' are rejected. A shortest counterexample is printed.
R22b numeric language: for all 8 instantiations (non_negative x int_only x with/without units) the
     accepted language equals the documented one: optional leading/trailing whitespace, '-' allowed
     iff not non_negative, digits with an optional fraction (no '.' when int_only), and - when units
     are declared - one unit separated by at most one space.
R22c escaping (taint): every element of `units` / `options` reaches a template only through re.escape.
R22d writer/reader markers: the literal markers that RegexNamedArgumentParser.get_units /
     get_exclusive_options / get_additive_options search for occur in the writer templates, in the
     required order.
R22e decode-before-split: no `.split(c)` is applied to the result of unescape(...) for a character c
     that re.escape escapes (an option containing c would be reported as two options).
R22f delivered unchanged: RegexNamedArgumentParser.parse / validate apply the pattern they were constructed with (self.regex,
     or a pattern compiled from it in the constructor) to their own parameter, neither rewritten (opstatic/matchsite.py), and
     parse returns the groupdict of that very match - a normalisation of text or pattern before matching delivers groups cut
     from a different string and widens the accepted language.
R22g the reader ends a group where the group ends: RegexNumberOptional wraps the pattern of RegexNumber in a further group, so the unit
     group's closing parenthesis is not the last one of the pattern. RegexNamedArgumentParser.get_units must not bound the unit list with
     the *last* ')' (`rindex`) - it would report `h)` + the rest of the pattern as a unit of the built-in Pause and Hold commands - but with the group's own
     (first unescaped) one; the same holds for any reader of a named group.
Decides the template languages over the abstract alphabet and that matching is applied to the untouched argument.
"""
from __future__ import annotations

import ast
import itertools

from ..consteval import partial_eval, Sym
from ..model import AnchorError, norm, walk_no_nested
from ..regexlang import difference
from ..util import call_attr

EXPLANATION = __doc__
RX = "openpectus.lang.exec.regex"
E_, A_, U_ = "", "", ""
# one representative per class of characters the patterns can tell apart; "\u0663" (ARABIC-INDIC DIGIT THREE) stands for the
# non-ASCII decimal digits that `\d` matches in a str pattern but `[0-9]` (the documented language) does not
ALPHA = ["5", ".", "-", "+", " ", E_, A_, U_, "#", "\u0663"]
NAMES = {"5": "<digit>", E_: "<excl>", A_: "<add>", U_: "<unit>", " ": "<space>", "#": "<other>", "\u0663": "<non-ASCII digit>"}


def show(word: str) -> str:
    return "".join(NAMES.get(ch, ch) for ch in word) or "<empty>"


def _run_main(ctx) -> None:
    prog = ctx.prog
    for r, d in [("R22a", "categorical template language == E | A(+A)*"), ("R22b", "numeric template language == documented language"),
                 ("R22c", "interpolated lists are escaped"), ("R22d", "reader markers occur in writer templates"),
                 ("R22e", "no split on an escapable character after unescape")]:
        ctx.rule(r, d)
    rc = prog.func(f"{RX}:RegexCategorical")
    rn = prog.func(f"{RX}:RegexNumber")
    ctx.analysed(rc)
    ctx.analysed(rn)
    # ---- R22a
    shapes = [("exclusive only", Sym(E_), None, f"^{E_}\\s*$"),
              ("additive only", None, Sym(A_), f"^{A_}(\\+{A_})*\\s*$"),
              ("exclusive and additive", Sym(E_), Sym(A_), f"^({E_}|{A_}(\\+{A_})*)\\s*$")]
    templates = {}
    for what, ex, ad, spec in shapes:
        kind, tpl = partial_eval(prog, rc, {"exclusive_options": ex, "additive_options": ad})
        if kind != "return" or not isinstance(tpl, str):
            raise AnchorError(f"RegexCategorical({what}) did not fold to a template: {tpl}")
        templates[what] = tpl
        diff = difference(tpl, spec, ALPHA)
        inst = f"RegexCategorical({what})"
        if diff is None:
            ctx.ok("R22a", inst, {"rule": "R22a", "shape": what, "template": tpl.replace(E_, "E").replace(A_, "A")})
        else:
            word, in_tpl, in_spec = diff
            ctx.fail("R22a", rc, rc.node, inst,
                     f"the pattern {'accepts' if in_tpl else 'rejects'} the value `{show(word)}` which the documented language "
                     f"(one exclusive option, or additive options joined by single '+') {'accepts' if in_spec else 'rejects'}; "
                     f"template: {tpl.replace(E_, 'E').replace(A_, 'A')}")
    kind, _ = partial_eval(prog, rc, {"exclusive_options": None, "additive_options": None})
    if kind == "raise":
        ctx.ok("R22a", "RegexCategorical() without any option list raises")
    else:
        ctx.fail("R22a", rc, rc.node, "RegexCategorical() without any option list raises", "an empty categorical pattern is produced")
    # ---- R22b
    for nonneg, intonly, units in itertools.product((False, True), (False, True), (None, Sym(U_))):
        kind, tpl = partial_eval(prog, rn, {"units": units, "non_negative": nonneg, "int_only": intonly})
        if kind != "return" or not isinstance(tpl, str):
            raise AnchorError("RegexNumber did not fold to a template")
        sign = "" if nonneg else "-?"
        num = f"{sign}[0-9]+" if intonly else f"({sign}[0-9]+([.][0-9]*)?|{sign}[.][0-9]+)"
        unit = f" ?{U_}" if units else ""
        spec = f"^\\s*{num}\\s*{unit}\\s*$"
        diff = difference(tpl, spec, ALPHA)
        inst = f"RegexNumber(units={'yes' if units else 'no'}, non_negative={nonneg}, int_only={intonly})"
        if diff is None:
            ctx.ok("R22b", inst)
        else:
            word, in_tpl, in_spec = diff
            ctx.fail("R22b", rn, rn.node, inst, f"the pattern {'accepts' if in_tpl else 'rejects'} `{show(word)}` but the documented "
                     f"language {'accepts' if in_spec else 'rejects'} it; template: {tpl.replace(U_, 'U')}")
    # ---- R22c
    for f in (rc, rn):
        for n in walk_no_nested(f.node):
            if isinstance(n, ast.Call) and isinstance(n.func, ast.Attribute) and n.func.attr == "join" and n.args \
                    and isinstance(n.args[0], (ast.GeneratorExp, ast.ListComp)):
                gen = n.args[0]
                var = norm(gen.generators[0].target)
                elt = gen.elt
                inner = elt
                while isinstance(inner, ast.Call) and isinstance(inner.func, ast.Attribute) and inner.func.attr in ("replace",):
                    inner = inner.func.value
                inst = f"{f.short}: elements of {norm(gen.generators[0].iter)} pass through re.escape"
                if isinstance(inner, ast.Call) and norm(inner.func) == "re.escape" and inner.args and norm(inner.args[0]) == var:
                    ctx.ok("R22c", inst)
                else:
                    ctx.fail("R22c", f, n, inst, f"`{norm(elt)}` interpolates list elements into the pattern unescaped: an option containing a "
                             "regex metacharacter changes the accepted language")
    ctx.floor("R22c", 3)
    # ---- R22d
    rp = prog.cls("openpectus.lang.exec.uod:RegexNamedArgumentParser")
    # ---- R22f delivered unchanged: the parser applies the pattern it was constructed with to the argument it was given
    ctx.rule("R22f", "number, unit and option are cut out of the argument exactly as written")
    from ..matchsite import match_site
    sites = {}
    for mname in ("parse", "validate"):
        fm = rp.methods.get(mname)
        if fm is None:
            raise AnchorError(f"RegexNamedArgumentParser.{mname} missing")
        ctx.analysed(fm)
        st = match_site(fm, f"RegexNamedArgumentParser.{mname}")
        sites[mname] = st
        inst = f"RegexNamedArgumentParser.{mname}: the given argument is matched against the given pattern, both untouched"
        if st["subject"] == "param" and st["pattern"] in ("raw", "compiled"):
            ctx.ok("R22f", inst, {"rule": "R22f", "mode": st["mode"], "pattern": st["pattern"]})
        else:
            what = st["subject"] if st["subject"] != "param" else st["pattern"]
            ctx.fail("R22f", fm, st["call"], inst, f"the text or the pattern is rewritten before matching ({what.split(':', 1)[-1]}): the groups are "
                     "cut out of the rewritten text, so the command does not receive the number/unit/option as written, and arguments "
                     "outside the documented language can be accepted")
    pf = rp.methods["parse"]
    rets = [r.value for r in walk_no_nested(pf.node) if isinstance(r, ast.Return) and r.value is not None
            and not (isinstance(r.value, ast.Constant) and r.value.value is None)]
    from ..util import local_single_defs
    mdefs = local_single_defs(pf)
    good = bool(rets)
    for r in rets:
        if not (isinstance(r, ast.Call) and call_attr(r) == "groupdict" and isinstance(r.func.value, ast.Name)
                and mdefs.get(r.func.value.id) is sites["parse"]["call"]):   # (the match itself, or the helper call returning it)
            good = False
    inst = "RegexNamedArgumentParser.parse returns the groupdict of that match"
    if good:
        ctx.ok("R22f", inst)
    else:
        ctx.fail("R22f", pf, pf.node, inst, f"returns {[norm(r) for r in rets]}: the delivered groups are not those of the match")
    both = templates["exclusive and additive"].replace(E_, "E").replace(A_, "A")
    kind, num_tpl = partial_eval(prog, rn, {"units": Sym(U_), "non_negative": False, "int_only": False})
    markers = {"get_units": (num_tpl, ["<number_unit>"]), "get_exclusive_options": (both, ["<option>(", "|("]),
               "get_additive_options": (both, ["|(", r"|\+)+)(?<!\+))\s*"])}
    for mname, (tpl, want) in markers.items():
        m = rp.methods.get(mname)
        if m is None:
            raise AnchorError(f"RegexNamedArgumentParser.{mname} missing")
        ctx.analysed(m)
        used = [c.args[0].value for c in walk_no_nested(m.node) if isinstance(c, ast.Call) and call_attr(c) in ("index", "rindex")
                and c.args and isinstance(c.args[0], ast.Constant) and isinstance(c.args[0].value, str)]
        used += [c.args[0].value[:-1] for c in walk_no_nested(m.node) if isinstance(c, ast.Call) and call_attr(c) == "len"
                 and c.args and isinstance(c.args[0], ast.Constant) and isinstance(c.args[0].value, str) and c.args[0].value.endswith("(")
                 and c.args[0].value[:-1] in used] and []
        pos = -1
        ok = bool(used)
        for mk in used:
            i = tpl.find(mk, pos + 1) if mk != ")" else tpl.rfind(mk)
            if i < 0:
                ok = False
            pos = max(pos, i)
        inst = f"RegexNamedArgumentParser.{mname}: markers {used} occur in the writer template"
        if ok:
            ctx.ok("R22d", inst)
        else:
            ctx.fail("R22d", m, m.node, inst, f"the reader searches for {used} but the template is {tpl!r}: the derived option/unit list is wrong or raises")
    # ---- R22e
    ESCAPED = set("|()[]{}?*+-^$\\.&~# \t\n\r\v\f")
    for m in rp.methods.values():
        for c in walk_no_nested(m.node):
            if isinstance(c, ast.Call) and call_attr(c) == "split" and isinstance(c.func, ast.Attribute) and c.args \
                    and isinstance(c.args[0], ast.Constant) and isinstance(c.args[0].value, str):
                recv = c.func.value
                if isinstance(recv, ast.Call) and call_attr(recv) == "unescape":
                    sep = c.args[0].value
                    inst = f"{m.short}: unescape(...).split({sep!r})"
                    if any(ch in ESCAPED for ch in sep):
                        ctx.fail("R22e", m, c, inst, f"the list is split on {sep!r} *after* unescaping, but re.escape escapes {sep!r}: an option or "
                                 f"unit that contains {sep!r} (written as '\\{sep}' in the pattern) is reported as two entries")
                    else:
                        ctx.ok("R22e", inst)


def _r22g(ctx) -> None:
    prog = ctx.prog
    ctx.rule("R22g", "a named group is read up to its own closing parenthesis")
    rx = prog.module(RX)
    wrappers = []
    for fn in rx.functions.values():
        for r in walk_no_nested(fn.node):
            if isinstance(r, ast.Return) and isinstance(r.value, ast.JoinedStr):
                parts = r.value.values
                # an f-string that puts a call result / local built from another template between "(" and ")"
                txt = "".join(p.value if isinstance(p, ast.Constant) and isinstance(p.value, str) else "\0" for p in parts)
                if "(\0)" in txt:
                    wrappers.append(fn.name)
    if not wrappers:
        ctx.ok("R22g", "no template wraps another template in a group", trivial=True)
        return
    rd = prog.cls("openpectus.lang.exec.uod:RegexNamedArgumentParser")
    n = 0
    for mname in ("get_units", "get_exclusive_options", "get_additive_options"):
        m = rd.methods.get(mname)
        if m is None:
            raise AnchorError(f"RegexNamedArgumentParser.{mname} missing")
        ctx.analysed(m)
        n += 1
        last = [c for c in walk_no_nested(m.node) if isinstance(c, ast.Call) and call_attr(c) in ("rindex", "rfind", "rsplit", "rpartition")
                and c.args and isinstance(c.args[0], ast.Constant) and c.args[0].value == ")"]
        inst = f"RegexNamedArgumentParser.{mname}: the group is not bounded by the pattern's last ')'"
        if not last:
            ctx.ok("R22g", inst)
        else:
            ctx.fail("R22g", m, last[0], inst, f"`{norm(last[0])}` takes the last ')' of the whole pattern, but {', '.join(wrappers)} wrap(s) the number pattern "
                     "in a further group: RegexNumberOptional(units=['s','min','h']) - the pattern of the built-in Pause and Hold - reports the "
                     "units ['s', 'min', 'h)\\s*$'], and a uod command built on it publishes the example `Area: 0.5 dm2)\\s*$` that its own parser rejects")
    if n < 3:
        raise AnchorError("R22g: reader methods not found")


def run(ctx) -> None:
    _run_main(ctx)
    _r22g(ctx)
