"""C29 - Plot-log persistence is monotone, throttled and faithful: the watermark discipline in the aggregator.

Recorded timestamps are produced in exactly one place (FromEngine._persist_tag_values): the values selected for a
write are re-stamped with one time H and the per-run watermark run_data.latest_persisted_tick_time is moved to H.
Strictly increasing, throttled and faithful recording needs, structurally:

R29a who-may-call: PlotLogRepository.store_tag_values is called only from _persist_tag_values (no second writer of
     plot-log values that bypasses the watermark).
R29b throttle guard: the store call is dominated by has_run() and by the true edge of a throttle condition of the
     shape `W is None or (L - W) > I` (or `L > W + I`; strict, or >=) where W is the watermark read from
     run_data.latest_persisted_tick_time, I is engine_data.data_log_interval_seconds and L is the maximum tick_time
     over the engine's current tag values.
R29c monotone selection: the persisted list is a comprehension over the engine's current tag values whose only
     filter is `W is None or value.tick_time > W` with a *strict* comparison against the same W - so nothing at or
     before an already recorded time is recorded again; each element is a copy (model_copy / copy), because the
     re-stamping below must not change the live tag state that later comparisons read.
R29d faithful stamp: H is max(tick_time) over the persisted list itself (so H >= the time the engine reported each
     recorded value, and H > W by R29c); every persisted element's tick_time is set to H, before the store call.
R29e watermark pairing and ownership: on every path from the store call to the exit the watermark is assigned H
     (the same H); latest_persisted_tick_time has no other writer than _persist_tag_values (its RunData default
     is None).
R29f TagsInfo.upsert keys the live map by tag name and on update overwrites value and tick_time together from the
     same message (a recorded value/time pair is one the engine reported).
Decides the watermark discipline on all paths; the numeric behaviour for concrete message streams is value-level.
R29g a restored run keeps its watermark: FromEngine._try_restore_reconnected_engine_data continues a run whose plot log already has
     rows. The RunData it builds must get the watermark from the stored rows - a repository query that is `max` over the stored
     tick_time of that run - otherwise the watermark is None again and the first message after the reconnect is stored whatever its
     time: a re-sent message gives a duplicate timestamp, a late one a value older than the newest stored, an ordinary one a row
     inside the data-log interval. (The only writers of the watermark: _persist_tag_values, and this restore with that value.)
"""
from __future__ import annotations

import ast

from ..model import AnchorError, norm, walk_no_nested
from ..util import cfg_of, node_calls, call_attr, assigned_attrs, local_single_defs, expand_local
from ..cfg import facts_at

EXPLANATION = __doc__
FE = "openpectus.aggregator.aggregator:FromEngine"
WATERMARK = "latest_persisted_tick_time"


def _is_none_test(e: ast.AST, name: str) -> bool:
    return isinstance(e, ast.Compare) and len(e.ops) == 1 and isinstance(e.ops[0], ast.Is) and norm(e.left) == name \
        and norm(e.comparators[0]) == "None"


def run(ctx) -> None:
    prog = ctx.prog
    pf = prog.func(f"{FE}._persist_tag_values")
    ctx.analysed(pf)
    g = cfg_of(pf)
    lsd = local_single_defs(pf)
    ctx.rule("R29a", "store_tag_values only from _persist_tag_values")
    ctx.rule("R29b", "store dominated by has_run() and the throttle condition on the watermark")
    ctx.rule("R29c", "persisted list = copies of current values strictly newer than the watermark")
    ctx.rule("R29d", "stamp H = max tick_time of the persisted list, applied to every element before the store")
    ctx.rule("R29e", "watermark := H after every store; no other writer")
    ctx.rule("R29f", "upsert overwrites value and time together, keyed by name")

    # ---------------------------------------------------------------- R29a
    n_calls = 0
    for fn in prog.iter_functions():
        for c in walk_no_nested(fn.node):
            if isinstance(c, ast.Call) and call_attr(c) == "store_tag_values":
                n_calls += 1
                inst = f"{fn.short}: {norm(c.func)}"
                if fn is pf:
                    ctx.ok("R29a", inst)
                else:
                    ctx.fail("R29a", fn, c, inst, "plot-log values are stored outside _persist_tag_values: they bypass the "
                             "watermark (timestamps may repeat or go backwards, no throttling)")
    if n_calls == 0:
        raise AnchorError("no store_tag_values call found")
    callers = [fn for fn in prog.iter_functions() for c in walk_no_nested(fn.node)
               if isinstance(c, ast.Call) and call_attr(c) == "_persist_tag_values"]
    ctx.extra["persist_callers"] = sorted({f.short for f in callers})

    stores = [n for n in g.nodes if node_calls(n, "store_tag_values")]
    if len(stores) != 1:
        raise AnchorError("_persist_tag_values: expected exactly one store_tag_values call")
    store = stores[0]
    scall = next(c for c in store.calls() if call_attr(c) == "store_tag_values")

    # watermark local
    wm_locals = [k for k, v in lsd.items() if isinstance(v, ast.Attribute) and v.attr == WATERMARK]
    if len(wm_locals) != 1:
        raise AnchorError(f"_persist_tag_values: single read of run_data.{WATERMARK} into a local not found")
    W = wm_locals[0]

    # ---------------------------------------------------------------- R29b
    facts = facts_at(g, store, lsd)
    inst = "_persist_tag_values: store only with an active run"
    if any(a.endswith(".has_run()") and pol for a, pol in facts):
        ctx.ok("R29b", inst)
    else:
        ctx.fail("R29b", pf, store.ast, inst, "store_tag_values is reachable without has_run() having been established")
    # find the throttle condition among the dominating conditions
    thr = None
    for e, pol in g.conditions_at(store):
        if not pol:
            continue
        parts = e.values if isinstance(e, ast.BoolOp) and isinstance(e.op, ast.And) else [e]
        for part in parts:
            part = expand_local(part, lsd)
            if isinstance(part, ast.BoolOp) and isinstance(part.op, ast.Or) and any(_is_none_test(v, W) for v in part.values):
                thr = part
    inst = "_persist_tag_values: throttle condition `W is None or L - W > interval` dominates the store"
    L_name = None
    if thr is None:
        ctx.fail("R29b", pf, store.ast, inst, "no throttle condition on the watermark dominates the store: values are recorded "
                 "on every tag message instead of at most once per data-log interval")
    else:
        others = [v for v in thr.values if not _is_none_test(v, W)]
        # an explicit request to store now: a boolean parameter that defaults to False (the session ends - engine disconnect,
        # aggregator shutdown - and what waits for the interval would be lost with the memory). Every caller that passes it
        # must be one of those two
        pargs = pf.node.args
        defaults = dict(zip([a.arg for a in pargs.args][len(pargs.args) - len(pargs.defaults):], pargs.defaults))
        flushes = [v for v in others if isinstance(v, ast.Name) and isinstance(defaults.get(v.id), ast.Constant) and defaults[v.id].value is False]
        if flushes:
            callers_ok = True
            for fn in prog.iter_functions():
                for c in ast.walk(fn.node):
                    if isinstance(c, ast.Call) and call_attr(c) == pf.name and any(k.arg == flushes[0].id for k in c.keywords):
                        if fn.name not in ("engine_disconnected", "shutdown"):
                            callers_ok = False
            if callers_ok:
                others = [v for v in others if v not in flushes]
        ok = False
        why = f"`{norm(thr)}`"
        if len(others) == 1 and isinstance(others[0], ast.Compare) and len(others[0].ops) == 1:
            cmp_ = others[0]
            l, r, op = cmp_.left, cmp_.comparators[0], cmp_.ops[0]
            # L - W > I
            if isinstance(op, (ast.Gt, ast.GtE)) and isinstance(l, ast.BinOp) and isinstance(l.op, ast.Sub) and norm(l.right) == W \
                    and norm(r).endswith(".data_log_interval_seconds"):
                ok, L_name = True, norm(l.left)
            # L > W + I
            elif isinstance(op, (ast.Gt, ast.GtE)) and isinstance(r, ast.BinOp) and isinstance(r.op, ast.Add) \
                    and {True} == {W in (norm(r.left), norm(r.right))} and "data_log_interval_seconds" in norm(r):
                ok, L_name = True, norm(l)
            # I < L - W
            elif isinstance(op, (ast.Lt, ast.LtE)) and isinstance(r, ast.BinOp) and isinstance(r.op, ast.Sub) and norm(r.right) == W \
                    and norm(l).endswith(".data_log_interval_seconds"):
                ok, L_name = True, norm(r.left)
        if ok:
            Ldef = lsd.get(L_name)
            # L = max(tick_time of current tag values) [if ... else 0]
            core = Ldef.body if isinstance(Ldef, ast.IfExp) else Ldef
            if isinstance(core, ast.Call) and call_attr(core) == "max" and "tick_time" in norm(core):
                ctx.ok("R29b", inst, {"rule": "R29b", "condition": norm(thr), "latest": norm(Ldef)[:100]})
            else:
                ctx.fail("R29b", pf, store.ast, inst, f"the 'latest' operand {L_name} = {norm(Ldef) if Ldef is not None else '?'} is "
                         "not the maximum tick_time of the current tag values")
        else:
            ctx.fail("R29b", pf, store.ast, inst, f"the throttle condition {why} does not compare (latest tag time - watermark) "
                     "with data_log_interval_seconds")

    # ---------------------------------------------------------------- R29c
    plist = scall.args[2] if len(scall.args) > 2 else next((k.value for k in scall.keywords if k.arg == "tags"), None)
    if not isinstance(plist, ast.Name) or plist.id not in lsd:
        raise AnchorError("_persist_tag_values: persisted list is not a single-assignment local")
    P = plist.id
    pdef = lsd[P]
    inst = f"_persist_tag_values: {P} = copies of current values with tick_time > watermark"
    if not (isinstance(pdef, ast.ListComp) and len(pdef.generators) == 1):
        ctx.fail("R29c", pf, pdef, inst, "the persisted list is not a single comprehension over the current tag values")
    else:
        gen = pdef.generators[0]
        var = norm(gen.target)
        src_ok = "tags_info" in norm(gen.iter)
        copy_ok = isinstance(pdef.elt, ast.Call) and call_attr(pdef.elt) in ("model_copy", "copy", "deepcopy") and var in norm(pdef.elt)
        filt_ok, strict = False, False
        if len(gen.ifs) == 1 and isinstance(gen.ifs[0], ast.BoolOp) and isinstance(gen.ifs[0].op, ast.Or):
            vals = gen.ifs[0].values
            cmp_ = [v for v in vals if isinstance(v, ast.Compare) and not _is_none_test(v, W)]
            if len(vals) == 2 and any(_is_none_test(v, W) for v in vals) and len(cmp_) == 1 and len(cmp_[0].ops) == 1:
                c = cmp_[0]
                l, r, op = norm(c.left), norm(c.comparators[0]), c.ops[0]
                if (l == f"{var}.tick_time" and r == W and isinstance(op, (ast.Gt, ast.GtE))) or \
                        (r == f"{var}.tick_time" and l == W and isinstance(op, (ast.Lt, ast.LtE))):
                    filt_ok = True
                    strict = isinstance(op, (ast.Gt, ast.Lt))
        if not src_ok:
            ctx.fail("R29c", pf, pdef, inst, f"the persisted list ranges over `{norm(gen.iter)}`, not the engine's current tag values")
        elif not filt_ok:
            ctx.fail("R29c", pf, pdef, inst, f"the selection filter `{[norm(i) for i in gen.ifs]}` is not `{W} is None or "
                     f"value.tick_time > {W}`: values at or before an already recorded time can be recorded again (or newer "
                     "values are left out)")
        elif not strict:
            ctx.fail("R29c", pf, pdef, inst, "the comparison with the watermark is not strict: a value stamped with the last "
                     "recorded time is recorded again with the same timestamp")
        elif not copy_ok:
            ctx.fail("R29c", pf, pdef, inst, f"the persisted elements `{norm(pdef.elt)}` are the live tag objects, not copies: "
                     "re-stamping them rewrites the times later selections compare against")
        else:
            ctx.ok("R29c", inst, {"rule": "R29c", "filter": norm(gen.ifs[0]), "element": norm(pdef.elt)})

    # ---------------------------------------------------------------- R29d
    # H: the value assigned to <elem>.tick_time in a loop over P
    stamps = []
    for n in g.nodes:
        if n.kind == "stmt" and n.ast is not None:
            for t, v, st in assigned_attrs(n.ast):
                if t.attr == "tick_time":
                    stamps.append((n, t, v))
    if len(stamps) != 1:
        raise AnchorError("_persist_tag_values: expected exactly one `<element>.tick_time = H` stamp")
    sn, st_t, H = stamps[0]
    inst = f"_persist_tag_values: every element of {P} is stamped with H = max of its tick times, before the store"
    loops = [n for n in g.nodes if n.kind == "for" and norm(n.ast.iter) == P and isinstance(n.ast.target, ast.Name)]
    Hdef = lsd.get(H.id) if isinstance(H, ast.Name) else None
    problems = []
    if not loops or norm(st_t.value) != loops[0].ast.target.id or not any(sn.ast is s for s in loops[0].ast.body):
        problems.append(f"the stamp is not applied unconditionally to every element of {P}")
    if not (isinstance(Hdef, ast.Call) and call_attr(Hdef) == "max" and Hdef.args
            and isinstance(Hdef.args[0], (ast.ListComp, ast.GeneratorExp)) and norm(Hdef.args[0].generators[0].iter) == P
            and isinstance(Hdef.args[0].elt, ast.Attribute) and Hdef.args[0].elt.attr == "tick_time"
            and not Hdef.args[0].generators[0].ifs):
        problems.append(f"H = `{norm(Hdef) if Hdef is not None else norm(H)}` is not max(tick_time) over {P}: a value can be "
                        "recorded with a time earlier than the engine reported it")
    if loops and g.search([store.id], lambda n: n.id == loops[0].id, follow_exc=False) is not None:
        problems.append("elements are stamped after the store call")
    if loops and g.search(None, lambda n: n.id == store.id, blocked=lambda n: n.id == loops[0].id, follow_exc=False) is not None:
        problems.append("the store can be reached without stamping")
    if problems:
        ctx.fail("R29d", pf, sn.ast, inst, "; ".join(problems))
    else:
        ctx.ok("R29d", inst, {"rule": "R29d", "H": norm(Hdef)})

    # ---------------------------------------------------------------- R29e
    def sets_wm(n):
        if n.kind != "stmt" or n.ast is None:
            return False
        return any(t.attr == WATERMARK and norm(v) == norm(H) for t, v, st in assigned_attrs(n.ast))
    inst = f"_persist_tag_values: {WATERMARK} := H on every path after the store"
    p = g.path_to_exit_avoiding([store.id], lambda n: n.id != store.id and sets_wm(n), follow_exc=False)
    if p is not None:
        ctx.fail("R29e", pf, store.ast, inst, "after storing, a path leaves without moving the watermark to the stamped time: the "
                 "same values are stored again on the next message (repeated timestamps, no throttling)", p)
    else:
        ctx.ok("R29e", inst)
    n_w = 0
    for fn in prog.iter_functions():
        for t, v, st in assigned_attrs(fn.node):
            if t.attr == WATERMARK:
                n_w += 1
                inst = f"{fn.short}: {norm(st)}"
                if fn is pf:
                    ctx.ok("R29e", inst, trivial=True)
                elif _from_stored_maximum(ctx, prog, fn, v):
                    ctx.ok("R29e", inst + " (the maximum stored time of the run that is being restored, R29g)")
                else:
                    ctx.fail("R29e", fn, st, inst, f"{WATERMARK} written outside _persist_tag_values")
        for c in walk_no_nested(fn.node):
            if isinstance(c, ast.Call) and any(k.arg == WATERMARK for k in c.keywords):
                ctx.notes.append(f"{fn.short}: RunData constructed with an explicit {WATERMARK}")
    rd = prog.cls("openpectus.aggregator.models:RunData")
    dflt = rd.class_attrs.get(WATERMARK)
    inst = f"RunData.{WATERMARK} defaults to None"
    if isinstance(dflt, ast.Constant) and dflt.value is None:
        ctx.ok("R29e", inst, trivial=True)
    else:
        ctx.fail("R29e", pf, rd.node, inst, "a new run does not start with an empty watermark", function=rd.qualname)

    # ---------------------------------------------------------------- R29g
    ctx.rule("R29g", "a restored run starts from the watermark of its stored rows")
    rs = prog.func("openpectus.aggregator.aggregator:FromEngine._try_restore_reconnected_engine_data")
    ctx.analysed(rs)
    builds = [st for t, v, st in assigned_attrs(rs.node) if t.attr == "run_data" and isinstance(v, ast.Call) and "RunData" in norm(v.func)]
    if not builds:
        raise AnchorError("_try_restore_reconnected_engine_data: construction of the restored RunData not found")
    wm = [(t, v, st) for t, v, st in assigned_attrs(rs.node) if t.attr == WATERMARK]
    kw = [k.value for st in builds for k in st.value.keywords if k.arg == WATERMARK]
    inst = "_try_restore_reconnected_engine_data: the restored run's watermark is the maximum stored tick_time of that run"
    good = any(_from_stored_maximum(ctx, prog, rs, v) for t, v, st in wm) or any(_from_stored_maximum(ctx, prog, rs, v) for v in kw)
    if good:
        ctx.ok("R29g", inst)
    else:
        ctx.fail("R29g", rs, builds[0], inst, "the run is restored with an empty watermark although its plot log already has rows: interval 5, A@100, "
                 "A@103, A@106 (106 stored), disconnect, reconnect - the re-sent A@106 is stored again (rows 100, 106, 106), a late A@103 after "
                 "it (100, 106, 103), and an ordinary A@107 one second after the last row (throttle lost)")
    # ---------------------------------------------------------------- R29f
    up = prog.func("openpectus.aggregator.models:TagsInfo.upsert")
    ctx.analysed(up)
    gu = cfg_of(up)
    par = up.node.args.args[1].arg
    ins = [n for n in gu.nodes if n.kind == "stmt" and isinstance(n.ast, ast.Assign) and any(
        isinstance(t, ast.Subscript) and norm(t.slice) == f"{par}.name" and norm(n.ast.value) == par for t in n.ast.targets)]
    inst = "TagsInfo.upsert: insert keyed by tag name"
    if ins:
        ctx.ok("R29f", inst)
    else:
        ctx.fail("R29f", up, up.node, inst, "a new tag value is not stored under its own name")
    # the existing entry: the local assigned from `self.map.get(<par>.name)` / `self.map[<par>.name]` (by role)
    cur = next((k for k, v in local_single_defs(up).items() if "self.map" in norm(v) and f"{par}.name" in norm(v)), None)
    if cur is None:
        raise AnchorError("TagsInfo.upsert: lookup of the existing entry not found")
    w = {t.attr: norm(v) for n in gu.nodes if n.kind == "stmt" and n.ast is not None for t, v, st in assigned_attrs(n.ast)
         if norm(t.value) == cur}
    inst = "TagsInfo.upsert: update overwrites value and tick_time from the same message"
    if w.get("value") == f"{par}.value" and w.get("tick_time") == f"{par}.tick_time":
        vn = [n for n in gu.nodes if n.kind == "stmt" and n.ast is not None and any(
            t.attr == "value" and norm(t.value) == cur for t, v, st in assigned_attrs(n.ast))][0]
        tn = [n for n in gu.nodes if n.kind == "stmt" and n.ast is not None and any(
            t.attr == "tick_time" and norm(t.value) == cur for t, v, st in assigned_attrs(n.ast))][0]
        # both on the same paths: neither reachable to exit without the other
        a = gu.path_to_exit_avoiding([vn.id], lambda n: n.id == tn.id, follow_exc=False)
        b = gu.search(None, lambda n: n.id == tn.id, blocked=lambda n: n.id == vn.id, follow_exc=False)
        if a is None and b is None:
            ctx.ok("R29f", inst)
        else:
            ctx.fail("R29f", up, vn.ast, inst, "value and time can be updated independently")
    else:
        ctx.fail("R29f", up, up.node, inst, f"update writes {w}: value and time of the live tag no longer come from one message")


def _from_stored_maximum(ctx, prog, fn, value) -> bool:
    """value (an expression in fn) is the result of a repository method whose returned query takes max() over a stored tick_time."""
    from ..util import local_all_defs
    exprs = [value]
    if isinstance(value, ast.Name):
        exprs = list(local_all_defs(fn).get(value.id, []))
    for e in exprs:
        if isinstance(e, ast.Constant) and e.value is None:
            continue
        if not isinstance(e, ast.Call):
            return False
        ok = False
        for callee in ctx.res.resolve_call(e, fn, cha=False):
            txt = norm(callee.node)
            if "max(" in txt and "tick_time" in txt and ("select(" in txt or "query(" in txt):
                ok = True
        if not ok:
            return False
    return any(isinstance(e, ast.Call) for e in exprs)
