"""Exception-escape summaries: which explicit raises can leave a function (transitively, bounded).

A raise site escapes function f if the raised type is not caught by an enclosing handler in f; a
call escapes if a resolved callee has an escaping raise that no enclosing handler of the call site
catches. Only *explicit* raise statements (and `assert`) are tracked - partial builtins are handled
by the rules that need them with explicit tables.
"""
from __future__ import annotations

import ast
from dataclasses import dataclass

from .model import FuncInfo, Program, norm, walk_no_nested, parent_map, ClassInfo
from .resolve import Resolver

BUILTIN_BASES = {
    "ValueError": "Exception", "TypeError": "Exception", "KeyError": "LookupError", "IndexError": "LookupError",
    "LookupError": "Exception", "AttributeError": "Exception", "NotImplementedError": "RuntimeError",
    "RuntimeError": "Exception", "AssertionError": "Exception", "StopIteration": "Exception", "OSError": "Exception",
    "IOError": "OSError", "FileNotFoundError": "OSError", "ZeroDivisionError": "ArithmeticError",
    "ArithmeticError": "Exception", "UnicodeDecodeError": "ValueError", "Exception": "BaseException",
    "TimeoutError": "OSError", "ConnectionError": "OSError", "RecursionError": "RuntimeError",
}


@dataclass(frozen=True)
class Escape:
    exc: str            # exception type name ("?" if unknown)
    site: str           # "module:func: raise X(...)"
    chain: tuple        # call chain (function short names) from the analysed function to the raise


class Effects:
    def __init__(self, prog: Program, res: Resolver, partial_builtins: bool = False):
        self.prog, self.res = prog, res
        # also count the builtins that raise on an empty argument when called without a fallback: next(it) -> StopIteration,
        # max(xs) / min(xs) -> ValueError (syntactically recognisable; whether the argument can be empty is not decided)
        self.partial_builtins = partial_builtins
        self._cache: dict[tuple[int, int], frozenset] = {}
        self._busy: set[int] = set()

    def _bases(self, name: str, module) -> list[str]:
        out = [name]
        seen = set()
        cur = name
        while cur and cur not in seen:
            seen.add(cur)
            ent = self.prog.resolve_name(module, cur) if module is not None else None
            if isinstance(ent, ClassInfo):
                for c in ent.mro():
                    out.append(c.name)
                    out.extend(c.ext_bases)
                ext = [b for c in ent.mro() for b in c.ext_bases]
                cur = ext[0] if ext else None
                continue
            cur = BUILTIN_BASES.get(cur)
            if cur:
                out.append(cur)
        # builtin chain of every collected ext name
        for n in list(out):
            c = BUILTIN_BASES.get(n)
            while c:
                out.append(c)
                c = BUILTIN_BASES.get(c)
        return out

    def caught_by(self, exc: str, handler: ast.ExceptHandler, module) -> bool:
        if handler.type is None:
            return True
        names = [handler.type] if not isinstance(handler.type, ast.Tuple) else list(handler.type.elts)
        hn = {norm(n).split(".")[-1] for n in names}
        if hn & {"Exception", "BaseException"}:
            return True
        if exc == "?":
            return False
        return bool(hn & set(self._bases(exc, module)))

    def _enclosing_handlers(self, pm, node, f: FuncInfo) -> list[list[ast.ExceptHandler]]:
        """Handler lists of the try statements whose *body* contains node (innermost first)."""
        out = []
        cur = node
        par = pm.get(id(cur))
        while par is not None and par is not f.node:
            if isinstance(par, ast.Try) and any(cur is s for s in par.body):
                out.append(par.handlers)
            cur, par = par, pm.get(id(par))
        return out

    def escapes(self, f: FuncInfo, depth: int = 2) -> frozenset:
        key = (id(f.node), depth)
        if key in self._cache:
            return self._cache[key]
        if id(f.node) in self._busy:
            return frozenset()
        self._busy.add(id(f.node))
        out: set[Escape] = set()
        pm = parent_map(f.node)
        try:
            for n in walk_no_nested(f.node):
                if isinstance(n, ast.Raise):
                    if n.exc is None:
                        exc = "?"  # re-raise inside handler: type of the handler
                        h = pm.get(id(n))
                        while h is not None and not isinstance(h, ast.ExceptHandler):
                            h = pm.get(id(h))
                        if h is not None and h.type is not None and not isinstance(h.type, ast.Tuple):
                            exc = norm(h.type).split(".")[-1]
                    else:
                        e = n.exc.func if isinstance(n.exc, ast.Call) else n.exc
                        exc = norm(e).split(".")[-1]
                    if not self._caught(pm, n, f, exc):
                        out.add(Escape(exc, f"{f.short}: {norm(n)[:90]}", (f.short,)))
                elif isinstance(n, ast.Assert):
                    if not self._caught(pm, n, f, "AssertionError"):
                        out.add(Escape("AssertionError", f"{f.short}: {norm(n)[:90]}", (f.short,)))
                elif self.partial_builtins and isinstance(n, ast.Call) and isinstance(n.func, ast.Name) and len(n.args) == 1 \
                        and not n.keywords and n.func.id in ("next", "max", "min") \
                        and not isinstance(n.args[0], (ast.List, ast.Tuple, ast.Set, ast.Dict, ast.Constant)):
                    exc = "StopIteration" if n.func.id == "next" else "ValueError"
                    if not self._caught(pm, n, f, exc):
                        out.add(Escape(exc, f"{f.short}: {norm(n)[:90]} (no fallback for an empty argument)", (f.short,)))
                elif isinstance(n, ast.Call) and depth > 0:
                    for callee in self.res.resolve_call(n, f, cha=False):
                        for esc in self.escapes(callee, depth - 1):
                            if not self._caught(pm, n, f, esc.exc, callee.module):
                                out.add(Escape(esc.exc, esc.site, (f.short,) + esc.chain))
        finally:
            self._busy.discard(id(f.node))
        res = frozenset(out)
        self._cache[key] = res
        return res

    def _caught(self, pm, node, f: FuncInfo, exc: str, module=None) -> bool:
        for handlers in self._enclosing_handlers(pm, node, f):
            for h in handlers:
                if self.caught_by(exc, h, module or f.module):
                    return True
        return False

    def call_escapes(self, call: ast.Call, f: FuncInfo, depth: int = 2) -> set[Escape]:
        """Escapes of a single call site inside f (after f's own handlers)."""
        pm = parent_map(f.node)
        out = set()
        for callee in self.res.resolve_call(call, f, cha=False):
            for esc in self.escapes(callee, depth):
                if not self._caught(pm, call, f, esc.exc, callee.module):
                    out.add(esc)
        return out
