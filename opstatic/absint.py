"""Finite-domain abstract interpreter (explicit-state) over opstatic CFGs (DESIGN Appendix A.5).

A `Binding` says which expressions read/write the finite-domain variables (enum- or bool-valued
attributes, tags with enum values) and which calls are inlined. Everything else is abstracted:
conditions that do not mention a domain variable are nondeterministic (both edges), other
statements are no-ops. A statement that writes a domain variable with a value the binding cannot
evaluate aborts the analysis (AnchorError -> exit 2, fail closed) instead of being skipped.

run(f, state) explores all (node, state) pairs of f's CFG from the entry (or a resume point after
a `yield`) and returns the set of outcomes: ('return', state), ('raise', state),
('yield', node_id, state).
"""
from __future__ import annotations

import ast
from typing import Iterable

from .cfg import CFG, Node
from .model import AnchorError, FuncInfo, norm
from .util import cfg_of

State = tuple  # tuple of (var, value) pairs sorted by var
UNKNOWN = object()


def mk(d: dict) -> State:
    return tuple(sorted(d.items()))


def sd(s: State) -> dict:
    return dict(s)


class Binding:
    """Domain-specific recognisers; subclass per property."""
    vars: dict[str, tuple] = {}

    def read(self, expr: ast.AST, f: FuncInfo) -> str | None:
        """Name of the domain variable that `expr` reads, or None."""
        return None

    def const(self, expr: ast.AST, f: FuncInfo, var: str | None = None):
        """Domain value denoted by a constant expression (enum member, True/False/None), else UNKNOWN."""
        if isinstance(expr, ast.Constant):
            return expr.value
        return UNKNOWN

    def writes(self, n: Node, f: FuncInfo) -> list[tuple[str, ast.AST | object]]:
        """Domain writes performed by CFG node n: list of (var, value expr | python value)."""
        return []

    def inline(self, call: ast.Call, f: FuncInfo) -> list[FuncInfo] | None:
        """Callees to inline for this call (their effects on the domain matter), [] to skip,
        None = no opinion (skip)."""
        return None

    def call_effect(self, call: ast.Call, f: FuncInfo, state: State):
        """Optional direct effect of a call: return list of states or None."""
        return None

    def assert_may_fail(self, a: ast.Assert, f: FuncInfo) -> bool:
        return True

    def may_raise(self, call: ast.Call, f: FuncInfo) -> bool:
        """May a non-inlined call raise? Default: yes, except logging calls and a few total builtins."""
        t = norm(call.func)
        if t.split(".")[0] in ("logger", "logging", "frontend_logger") or t in ("len", "str", "isinstance", "list", "zip",
                                                                                 "set", "dict", "print", "id", "type", "repr"):
            return False
        return True


class Interp:
    def __init__(self, binding: Binding, max_depth: int = 5):
        self.b = binding
        self.max_depth = max_depth
        self._summ: dict[tuple, frozenset] = {}
        self.seen: dict[tuple[int, int], set[State]] = {}   # (id(func node), cfg node id) -> states observed
        self.transitions = 0
        self.inlined: set[str] = set()

    # -- conditions ----------------------------------------------------------------------------
    def eval_cond(self, e: ast.AST, s: State, f: FuncInfo):
        """True / False / None (unknown)."""
        d = sd(s)
        if isinstance(e, ast.UnaryOp) and isinstance(e.op, ast.Not):
            v = self.eval_cond(e.operand, s, f)
            return None if v is None else (not v)
        if isinstance(e, ast.BoolOp):
            vals = [self.eval_cond(v, s, f) for v in e.values]
            if isinstance(e.op, ast.And):
                if any(v is False for v in vals):
                    return False
                return True if all(v is True for v in vals) else None
            if any(v is True for v in vals):
                return True
            return False if all(v is False for v in vals) else None
        if isinstance(e, ast.Compare) and len(e.ops) == 1:
            op, l, r = e.ops[0], e.left, e.comparators[0]
            tv = getattr(self.b, "table_value", None)
            if tv is not None:
                # `<table local> is [not] None` and `<x> [not] in <table local>` (a lookup in a module-level dict constant)
                if isinstance(op, (ast.Is, ast.IsNot)) and isinstance(r, ast.Constant) and r.value is None:
                    t = tv(l, f, s)
                    if t is not None:
                        res = t[0] == "none"
                        return res if isinstance(op, ast.Is) else (not res)
                if isinstance(op, (ast.In, ast.NotIn)) and isinstance(r, ast.Name):
                    t = tv(r, f, s)
                    if t is not None and t[0] == "list":
                        r = t[1]
                    elif t is not None:
                        return None
            var = self.b.read(l, f)
            other = r
            if var is None:
                var = self.b.read(r, f)
                other = l
                if var is not None and isinstance(op, (ast.In, ast.NotIn)):
                    return None
            if var is None:
                return None
            cur = d[var]
            if isinstance(op, (ast.Eq, ast.NotEq, ast.Is, ast.IsNot)):
                c = self.b.const(other, f, var)
                if c is UNKNOWN:
                    ov = self.b.read(other, f)
                    if ov is not None:
                        c = d[ov]
                    else:
                        return None
                res = (cur == c)
                return res if isinstance(op, (ast.Eq, ast.Is)) else (not res)
            if isinstance(op, (ast.In, ast.NotIn)) and isinstance(other, (ast.List, ast.Tuple, ast.Set)):
                cs = [self.b.const(x, f, var) for x in other.elts]
                if any(c is UNKNOWN for c in cs):
                    return None
                res = cur in cs
                return res if isinstance(op, ast.In) else (not res)
            return None
        var = self.b.read(e, f)
        if var is not None:
            return bool(d[var])
        return None

    def eval_value(self, e, s: State, f: FuncInfo, var: str) -> list:
        """Possible domain values of a written expression."""
        if callable(e):
            return [e(sd(s))]
        if not isinstance(e, ast.AST):
            return [e]
        c = self.b.const(e, f, var)
        if c is not UNKNOWN:
            return [c]
        if isinstance(e, ast.IfExp):
            t = self.eval_cond(e.test, s, f)
            out = []
            if t is not False:
                out += self.eval_value(e.body, s, f, var)
            if t is not True:
                out += self.eval_value(e.orelse, s, f, var)
            return out
        rv = self.b.read(e, f)
        if rv is not None:
            return [sd(s)[rv]]
        if isinstance(e, ast.Name):
            # single-assignment local
            from .util import local_single_defs
            defs = local_single_defs(f)
            if e.id in defs:
                return self.eval_value(defs[e.id], s, f, var)
        raise AnchorError(f"absint: cannot evaluate value `{norm(e)}` written to domain variable {var} in {f.qualname}")

    # -- exploration ---------------------------------------------------------------------------
    def run(self, f: FuncInfo, s0: State, resume_after: int | None = None, depth: int = 0) -> frozenset:
        key = (id(f.node), s0, resume_after)
        if key in self._summ:
            return self._summ[key]
        if depth > self.max_depth:
            raise AnchorError(f"absint: inlining depth exceeded at {f.qualname}")
        self._summ[key] = frozenset()  # recursion guard
        g = cfg_of(f)
        out: set = set()
        work: list[tuple[int, State]] = []
        visited: set[tuple[int, State]] = set()

        def push(nid: int, st: State):
            if (nid, st) not in visited:
                visited.add((nid, st))
                work.append((nid, st))

        if resume_after is None:
            push(g.entry.id, s0)
        else:
            for d, l in g.succ[resume_after]:
                if l != "exc":
                    push(d, s0)
        while work:
            nid, st = work.pop()
            n = g.nodes[nid]
            self.seen.setdefault((id(f.node), nid), set()).add(st)
            self.transitions += 1
            if nid == g.exit.id:
                out.add(("return", st))
                continue
            if nid == g.raise_exit.id:
                out.add(("raise", st))
                continue
            succ = g.succ[nid]
            if n.kind == "test":
                posts, raised = self._apply_calls(n, [st], f, depth)
                for ps in posts:
                    v = self.eval_cond(n.ast, ps, f)
                    for d, l in succ:
                        if l == "T" and v is not False:
                            push(d, ps)
                        elif l == "F" and v is not True:
                            push(d, ps)
                        elif l == "" and not any(x in ("T", "F") for _, x in succ):
                            push(d, ps)  # match subject
                self._exc(g, nid, list(raised), push, out)
                continue
            if n.kind in ("entry", "join", "except", "case", "for", "with"):
                posts, raised = ([st], []) if n.kind in ("entry", "join", "except", "case") else self._apply_calls(n, [st], f, depth)
                for ps in posts:
                    for d, l in succ:
                        if l != "exc":
                            push(d, ps)
                self._exc(g, nid, list(raised), push, out)
                continue
            # stmt
            a = n.ast
            posts, raised = self._apply_calls(n, [st], f, depth)
            new_posts: list[State] = []
            for ps in posts:
                cur = [ps]
                for var, vexpr in self.b.writes(n, f):
                    nxt = []
                    for c in cur:
                        for val in self.eval_value(vexpr, c, f, var):
                            if val not in self.b.vars[var]:
                                raise AnchorError(f"absint: value {val!r} written to {var} in {f.qualname} is outside its "
                                                  f"domain {self.b.vars[var]}")
                            dd = sd(c)
                            dd[var] = val
                            nxt.append(mk(dd))
                    cur = nxt
                new_posts += cur
            posts = new_posts
            is_yield = isinstance(a, ast.Expr) and isinstance(a.value, (ast.Yield, ast.YieldFrom)) or (
                isinstance(a, ast.Assign) and isinstance(a.value, (ast.Yield, ast.YieldFrom)))
            if isinstance(a, ast.Raise):
                self._exc(g, nid, posts, push, out, explicit=True)
                continue
            if is_yield:
                for ps in posts:
                    out.add(("yield", nid, ps))
                continue
            for ps in posts:
                for d, l in succ:
                    if l != "exc":
                        push(d, ps)
            if isinstance(a, ast.Assert) and self.b.assert_may_fail(a, f):
                raised = list(raised) + [st]
            self._exc(g, nid, list(raised), push, out)
        res = frozenset(out)
        self._summ[key] = res
        return res

    def _exc(self, g: CFG, nid: int, states: Iterable[State], push, out, explicit=False):
        for d, l in g.succ[nid]:
            if l == "exc":
                for s in states:
                    push(d, s)

    def _apply_calls(self, n: Node, states: list[State], f: FuncInfo, depth: int):
        """Apply the domain effect of inlined callees occurring in node n (in source order)."""
        raised: list[State] = []
        calls = n.calls()
        if not calls:
            return states, raised
        calls = sorted(calls, key=lambda c: (getattr(c, "end_lineno", 0), getattr(c, "end_col_offset", 0)))
        for c in calls:
            nxt: list[State] = []
            for s in states:
                eff = self.b.call_effect(c, f, s)
                if eff is not None:
                    nxt += eff
                    if getattr(self.b, "fault_before_effect", False) and self.b.may_raise(c, f):
                        raised.append(s)  # ... or raise before it has had its effect (a failed hardware write changes nothing)
                    continue
                targets = self.b.inline(c, f)
                if not targets:
                    if self.b.may_raise(c, f):
                        raised.append(s)  # an external call may raise before having any domain effect
                    nxt.append(s)
                    continue
                for t in targets:
                    self.inlined.add(t.qualname)
                    for o in self.run(t, s, None, depth + 1):
                        if o[0] == "return":
                            nxt.append(o[1])
                        elif o[0] == "raise":
                            raised.append(o[1])
                        elif o[0] == "yield":
                            raise AnchorError(f"absint: inlined callee {t.qualname} yields (generator) - not supported here")
            states = list(dict.fromkeys(nxt))
        return states, raised

    def states_at(self, f: FuncInfo, n: Node) -> set[State]:
        return self.seen.get((id(f.node), n.id), set())


def all_states(vars: dict[str, tuple]) -> list[State]:
    import itertools
    names = sorted(vars)
    return [mk(dict(zip(names, combo))) for combo in itertools.product(*(vars[n] for n in names))]
