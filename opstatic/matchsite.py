"""How a validator / parser method applies its regular expression (shared by C20 and C22).

`match_site(f)` describes the single regex application of a method such as RegexNamedArgumentParser.parse / validate or
ArgSpec.validate_w_groups:
    mode      'match' | 'search' | 'full'
    pattern   'raw'  - re.<fn>(self.<attr>, subject) with <attr> stored unmodified from the constructor parameter
              'compiled' - self.<attr>.<fn>(subject) where <attr> = re.compile(<constructor parameter or self.<attr>>) in __init__
              'transformed:<text>' - anything else (the pattern the method matches is not the pattern it was given)
    subject   'param' when the matched text is the method's own parameter, untouched; otherwise 'transformed:<text>'
Accepted shapes only; anything else raises AnchorError (analysis broken, not a silent pass).
"""
from __future__ import annotations

import ast

from .model import AnchorError, FuncInfo, norm, walk_no_nested
from .util import local_single_defs

MODES = {"match": "match", "search": "search", "fullmatch": "full"}


def _ctor_attr_source(cls, attr: str):
    """What __init__ stores in self.<attr>: ('param', name) / ('compile', inner-source) / ('other', text)."""
    init = cls.methods.get("__init__")
    if init is None:
        return ("other", "no constructor")
    params = {a.arg for a in init.node.args.args}
    vals = [v for fn, v in cls.inst_attr_vals.get(attr, []) if fn is init]
    if len(vals) != 1:
        return ("other", f"{len(vals)} assignments")
    v = vals[0]
    if isinstance(v, ast.Name) and v.id in params:
        return ("param", v.id)
    if isinstance(v, ast.Call) and norm(v.func) == "re.compile" and len(v.args) == 1 and not v.keywords:
        a = v.args[0]
        if isinstance(a, ast.Name) and a.id in params:
            return ("compile", a.id)
        if isinstance(a, ast.Attribute) and isinstance(a.value, ast.Name) and a.value.id == "self":
            inner = _ctor_attr_source(cls, a.attr)
            if inner[0] == "param":
                return ("compile", inner[1])
        return ("other", norm(v))
    return ("other", norm(v))


def match_site(f: FuncInfo, what: str, depth: int = 0) -> dict:
    sites = []
    par = [a.arg for a in f.node.args.args if a.arg not in ("self", "cls")]
    defs = local_single_defs(f)
    for c in walk_no_nested(f.node):
        if not (isinstance(c, ast.Call) and isinstance(c.func, ast.Attribute) and c.func.attr in MODES):
            continue
        recv = c.func.value
        if norm(recv) == "re" and len(c.args) >= 2:
            pat, subj = c.args[0], c.args[1]
            if isinstance(pat, ast.Name) and pat.id in defs:
                pat = defs[pat.id]
            if isinstance(pat, ast.Attribute) and isinstance(pat.value, ast.Name) and pat.value.id == "self" and f.cls is not None:
                src = _ctor_attr_source(f.cls, pat.attr)
                pattern = "raw" if src[0] == "param" else f"transformed:{norm(pat)} = {src[1]}"
            else:
                pattern = f"transformed:{norm(pat)}"
        elif isinstance(recv, ast.Attribute) and isinstance(recv.value, ast.Name) and recv.value.id == "self" and c.args and f.cls is not None:
            subj = c.args[0]
            src = _ctor_attr_source(f.cls, recv.attr)
            pattern = "compiled" if src[0] == "compile" else f"transformed:{norm(recv)} = {src[1]}"
        else:
            continue
        if isinstance(subj, ast.Name) and subj.id in defs and subj.id not in par:
            subj = defs[subj.id]
        subject = "param" if isinstance(subj, ast.Name) and subj.id in par else f"transformed:{norm(subj)}"
        sites.append({"mode": MODES[c.func.attr], "pattern": pattern, "subject": subject, "call": c})
    if not sites and depth < 2 and f.cls is not None:
        # delegation: self.<helper>(<own parameter>) - the helper's site, seen through the call
        for c in walk_no_nested(f.node):
            if isinstance(c, ast.Call) and isinstance(c.func, ast.Attribute) and isinstance(c.func.value, ast.Name) \
                    and c.func.value.id == "self" and c.args:
                h = f.cls.find_method(c.func.attr)
                if h is None or h is f:
                    continue
                try:
                    inner = match_site(h, what + " -> " + h.short, depth + 1)
                except AnchorError:
                    continue
                a0 = c.args[0]
                if not (isinstance(a0, ast.Name) and a0.id in par):
                    inner = dict(inner, subject=f"transformed:{norm(a0)}")
                sites.append(dict(inner, call=c, inner_call=inner["call"]))
    if len(sites) != 1:
        raise AnchorError(f"{what}: expected exactly one application of the pattern (re.match/search/fullmatch or a compiled "
                          f"pattern's method), found {[norm(s['call']) for s in sites]}")
    return sites[0]
