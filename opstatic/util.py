"""Shared helpers for rule modules."""
from __future__ import annotations

import ast
from typing import Callable, Iterable, Iterator

from . import cfg as cfgmod
from .model import AnchorError, FuncInfo, norm, walk_no_nested, attr_chain, parent_map

_CFG_CACHE: dict[int, tuple] = {}


def cfg_of(f: FuncInfo) -> cfgmod.CFG:
    # keyed by id(node) but the node itself is kept and compared: an id can be reused once another Program (the audit
    # builds several per process) has been collected
    k = id(f.node)
    hit = _CFG_CACHE.get(k)
    if hit is None or hit[0] is not f.node:
        hit = (f.node, cfgmod.build(f.node))
        _CFG_CACHE[k] = hit
    return hit[1]


def self_name(f: FuncInfo) -> str:
    if f.cls is None or f.is_static or not f.node.args.args:
        raise AnchorError(f"{f.qualname} has no self parameter")
    return f.node.args.args[0].arg


def is_attr_of(expr: ast.AST, base: str, attr: str) -> bool:
    return (isinstance(expr, ast.Attribute) and expr.attr == attr and isinstance(expr.value, ast.Name)
            and expr.value.id == base)


def ends_with_attr(expr: ast.AST, attr: str) -> bool:
    return isinstance(expr, ast.Attribute) and expr.attr == attr


def call_attr(call: ast.AST) -> str | None:
    if isinstance(call, ast.Call):
        if isinstance(call.func, ast.Attribute):
            return call.func.attr
        if isinstance(call.func, ast.Name):
            return call.func.id
    return None


def calls_named(node_or_cfgnode, name: str) -> list[ast.Call]:
    it = node_or_cfgnode.walk() if hasattr(node_or_cfgnode, "walk") and not isinstance(node_or_cfgnode, ast.AST) \
        else walk_no_nested(node_or_cfgnode)
    return [n for n in it if isinstance(n, ast.Call) and call_attr(n) == name]


def node_calls(n: cfgmod.Node, name: str) -> bool:
    return any(call_attr(c) == name for c in n.calls())


def arg(call: ast.Call, pos: int, kw: str | None = None) -> ast.AST | None:
    """Positional/keyword argument of a call (pos counted without self)."""
    if kw is not None:
        for k in call.keywords:
            if k.arg == kw:
                return k.value
    if pos < len(call.args) and not any(isinstance(a, ast.Starred) for a in call.args[:pos + 1]):
        return call.args[pos]
    return None


def kill_of_container_key(n: cfgmod.Node, container: Callable[[ast.AST], bool],
                          key: Callable[[ast.AST], bool] | None) -> str | None:
    """Does CFG node n remove entry `key` from a container matching `container`?
    Idioms: del C[k]; C.pop(k[, d]); C.clear(); C = {} / dict() (rebinding). Returns idiom or None."""
    a = n.ast
    if n.kind != "stmt" or a is None:
        return None
    if isinstance(a, ast.Delete):
        for t in a.targets:
            if isinstance(t, ast.Subscript) and container(t.value) and (key is None or key(t.slice)):
                return "del"
    for c in n.calls():
        if isinstance(c.func, ast.Attribute) and container(c.func.value):
            if c.func.attr == "pop" and c.args and (key is None or key(c.args[0])):
                return "pop" if len(c.args) > 1 or c.keywords else "pop-nodefault"
            if c.func.attr == "clear":
                return "clear"
    if isinstance(a, ast.Assign):
        for t in a.targets:
            if container(t) and isinstance(a.value, (ast.Dict, ast.Call)) and not getattr(a.value, "keys", None) \
                    and not getattr(a.value, "args", None):
                return "rebind-empty"
    return None


def assigned_attrs(node: ast.AST) -> Iterator[tuple[ast.Attribute, ast.AST | None, ast.AST]]:
    """(target attribute expr, value expr or None, statement) for attribute stores in node
    (Assign, AnnAssign, AugAssign, Delete, with-as, for-target)."""
    for n in walk_no_nested(node):
        if isinstance(n, ast.Assign):
            for t in n.targets:
                if isinstance(t, (ast.Tuple, ast.List)) and isinstance(n.value, (ast.Tuple, ast.List)) and len(t.elts) == len(n.value.elts) \
                        and not any(isinstance(e, ast.Starred) for e in t.elts):
                    # `a.x, b.y = 1, None`: each target with its own value
                    for te, ve in zip(t.elts, n.value.elts):
                        for tt in _flatten_targets(te):
                            if isinstance(tt, ast.Attribute):
                                yield tt, ve, n
                    continue
                for tt in _flatten_targets(t):
                    if isinstance(tt, ast.Attribute):
                        yield tt, n.value, n
        elif isinstance(n, ast.AnnAssign) and isinstance(n.target, ast.Attribute) and n.value is not None:
            yield n.target, n.value, n
        elif isinstance(n, ast.AugAssign) and isinstance(n.target, ast.Attribute):
            yield n.target, n.value, n
        elif isinstance(n, ast.Delete):
            for t in n.targets:
                if isinstance(t, ast.Attribute):
                    yield t, None, n


def _flatten_targets(t: ast.AST) -> Iterator[ast.AST]:
    if isinstance(t, (ast.Tuple, ast.List)):
        for e in t.elts:
            yield from _flatten_targets(e)
    elif isinstance(t, ast.Starred):
        yield from _flatten_targets(t.value)
    else:
        yield t


_LSD_CACHE: dict[int, tuple] = {}


def local_single_defs(f: FuncInfo) -> dict[str, ast.AST]:
    """Locals assigned exactly once by a plain `name = expr` (for expanding boolean temporaries)."""
    k = id(f.node)
    hit = _LSD_CACHE.get(k)
    if hit is None or hit[0] is not f.node:
        hit = (f.node, _local_single_defs(f))
        _LSD_CACHE[k] = hit
    return hit[1]


def _local_single_defs(f: FuncInfo) -> dict[str, ast.AST]:
    counts: dict[str, int] = {}
    vals: dict[str, ast.AST] = {}
    for n in walk_no_nested(f.node):
        if isinstance(n, ast.Assign):
            for t in n.targets:
                for tt in _flatten_targets(t):
                    if isinstance(tt, ast.Name):
                        counts[tt.id] = counts.get(tt.id, 0) + 1
                        if len(n.targets) == 1 and isinstance(t, ast.Name):
                            vals[tt.id] = n.value
        elif isinstance(n, (ast.AugAssign, ast.AnnAssign)) and isinstance(n.target, ast.Name):
            counts[n.target.id] = counts.get(n.target.id, 0) + 2
        elif isinstance(n, (ast.For, ast.AsyncFor)):
            # (comprehension targets live in their own scope and never rebind a function local)
            for tt in _flatten_targets(n.target):
                if isinstance(tt, ast.Name):
                    counts[tt.id] = counts.get(tt.id, 0) + 2
        elif isinstance(n, ast.NamedExpr) and isinstance(n.target, ast.Name):
            counts[n.target.id] = counts.get(n.target.id, 0) + 2
    return {k: v for k, v in vals.items() if counts.get(k) == 1}


def expand_local(expr: ast.AST, defs: dict[str, ast.AST], depth: int = 3) -> ast.AST:
    """Replace a Name bound once by its defining expression (bounded)."""
    while depth > 0 and isinstance(expr, ast.Name) and expr.id in defs:
        expr = defs[expr.id]
        depth -= 1
    return expr


def lexically_inside(pm: dict[int, ast.AST], node: ast.AST, pred: Callable[[ast.AST], bool]) -> ast.AST | None:
    cur = pm.get(id(node))
    while cur is not None:
        if pred(cur):
            return cur
        cur = pm.get(id(cur))
    return None


def func_parent_map(f: FuncInfo) -> dict[int, ast.AST]:
    return parent_map(f.node)


def require(cond: bool, msg: str) -> None:
    if not cond:
        raise AnchorError(msg)


def first_lineno(node: ast.AST) -> int:
    return getattr(node, "lineno", 0)


def path_texts(path) -> list[str]:
    return [p.text() for p in path if p.ast is not None]


def enum_members(cls) -> dict[str, object]:
    """Members of a (Str)Enum class: name -> value (auto() -> lowercased name for StrEnum)."""
    out: dict[str, object] = {}
    for name, val in cls.class_attrs.items():
        if name.startswith("_"):
            continue
        if isinstance(val, ast.Constant):
            out[name] = val.value
        elif isinstance(val, ast.Call) and call_attr(val) == "auto":
            out[name] = name.lower() if cls.has_ext_base("StrEnum") else name
    return out


def follow_delegate(f: FuncInfo) -> FuncInfo:
    """If f only delegates - `[with <lock>:] return self.<other>(<its own parameters>)` - return <other> (bounded, else f)."""
    for _ in range(3):
        body = [st for st in f.node.body if not (isinstance(st, ast.Expr) and isinstance(st.value, ast.Constant))]
        if len(body) == 1 and isinstance(body[0], (ast.With, ast.AsyncWith)) and len(body[0].body) == 1:
            body = body[0].body
        if len(body) != 1 or not isinstance(body[0], (ast.Return, ast.Expr)) or not isinstance(body[0].value, ast.Call):
            return f
        c = body[0].value
        if not (isinstance(c.func, ast.Attribute) and isinstance(c.func.value, ast.Name) and f.cls is not None
                and f.node.args.args and c.func.value.id == f.node.args.args[0].arg):
            return f
        t = f.cls.find_method(c.func.attr)
        if t is None or t is f:
            return f
        f = t
    return f


def first_param(f: FuncInfo) -> str | None:
    a = [x.arg for x in f.node.args.posonlyargs + f.node.args.args]
    if a and a[0] in ("self", "cls"):
        a = a[1:]
    return a[0] if a else None


def norm_node(expr: ast.AST, f: FuncInfo) -> str:
    """norm(expr) with the function's first (non-self) parameter spelled `node`: texts that do not depend on how a visitor
    names its node parameter."""
    import copy
    par = first_param(f)
    if par is None or par == "node":
        return norm(expr)
    e = copy.deepcopy(expr)
    for n in ast.walk(e):
        if isinstance(n, ast.Name) and n.id == par:
            n.id = "node"
    return norm(e)


def canon_text(expr: ast.AST, f: FuncInfo, depth: int = 3) -> str:
    """Text of expr with every single-assignment local replaced by its defining expression (bounded): a key that does not
    change when locals are renamed."""
    import copy
    defs = local_single_defs(f)

    class Sub(ast.NodeTransformer):
        def __init__(self, d):
            self.d = d

        def visit_Name(self, n):
            if isinstance(n.ctx, ast.Load) and n.id in defs and self.d > 0:
                return Sub(self.d - 1).visit(copy.deepcopy(defs[n.id]))
            if n.id in assigned and n.id not in defs:
                return ast.Name(id="<local>", ctx=n.ctx)   # a local with several definitions: role-less placeholder
            return n
    params = {a.arg for a in f.node.args.posonlyargs + f.node.args.args + f.node.args.kwonlyargs}
    assigned = {x.id for x in ast.walk(f.node) if isinstance(x, ast.Name) and isinstance(x.ctx, ast.Store)} - params
    return norm(Sub(depth).visit(copy.deepcopy(expr)))


def local_all_defs(f: FuncInfo) -> dict[str, list[ast.AST]]:
    """Every `name = expr` / `name: T = expr` definition of each local (nested functions excluded)."""
    out: dict[str, list[ast.AST]] = {}
    for n in walk_no_nested(f.node):
        if isinstance(n, ast.Assign) and len(n.targets) == 1 and isinstance(n.targets[0], ast.Name):
            out.setdefault(n.targets[0].id, []).append(n.value)
        elif isinstance(n, ast.AnnAssign) and isinstance(n.target, ast.Name) and n.value is not None:
            out.setdefault(n.target.id, []).append(n.value)
        elif isinstance(n, (ast.For, ast.AsyncFor)) and isinstance(n.target, ast.Name):
            out.setdefault(n.target.id, []).append(ast.Subscript(value=n.iter, slice=ast.Constant(value="<element>"), ctx=ast.Load()))
    return out


def value_leaves(res, e: ast.AST, f: FuncInfo, depth: int = 0, _seen: set | None = None, stop=None) -> list[tuple[ast.AST, FuncInfo]]:
    """Source expressions a value can come from: locals replaced by (all of) their definitions, conditional expressions split,
    calls to functions of the analysed program replaced by what those return (bounded). Leaves are (expression, function)."""
    seen = set() if _seen is None else _seen
    if isinstance(e, ast.IfExp):
        return value_leaves(res, e.body, f, depth, seen, stop) + value_leaves(res, e.orelse, f, depth, seen, stop)
    if isinstance(e, ast.Name):
        params = {a.arg for a in f.node.args.posonlyargs + f.node.args.args + f.node.args.kwonlyargs}
        defs = local_all_defs(f).get(e.id)
        if defs and e.id not in params and (id(f.node), e.id) not in seen:
            seen.add((id(f.node), e.id))
            out = []
            for d in defs:
                out += value_leaves(res, d, f, depth, seen, stop)
            return out
        return [(e, f)]
    if isinstance(e, ast.Call) and depth < 3 and not (stop is not None and stop(e)):
        ts = res.resolve_call(e, f, cha=False)
        if ts:
            out = []
            for t in ts:
                rets = [n.value for n in walk_no_nested(t.node) if isinstance(n, ast.Return) and n.value is not None]
                implicit_none = not rets or not all(isinstance(s, (ast.Return, ast.Raise)) for s in t.node.body[-1:])
                if not rets:
                    return [(e, f)]
                for r in rets:
                    out += value_leaves(res, r, t, depth + 1, seen, stop)
                if implicit_none:
                    out.append((ast.Constant(value=None), t))
            return out
    return [(e, f)]
