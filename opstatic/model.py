"""Program model: modules, classes (MRO, attribute types), functions, import resolution.

Nothing here imports or executes openpectus; everything is read from the source with `ast`.
"""
from __future__ import annotations

import ast
import os
from dataclasses import dataclass, field
from typing import Iterable, Iterator


class AnchorError(Exception):
    """An anchor (module/class/function/attribute/table) a rule needs is missing or has a shape
    the analyser does not understand. Turned into ANALYSIS-ERROR / exit 2 by the CLI."""


REPO = os.environ.get("OPSTATIC_REPO", "/repo")
PKG = "openpectus"


# ------------------------------------------------------------------------------------------------
# type references
# ------------------------------------------------------------------------------------------------

@dataclass(frozen=True)
class TypeRef:
    """A (very) small type language: a repo class, an external/builtin name, or a generic."""
    name: str                       # qualified repo class name "mod:Class" or external name
    args: tuple = ()                # generic arguments (tuples of frozenset[TypeRef])
    cls: "ClassInfo | None" = field(default=None, compare=False, hash=False)

    def __repr__(self) -> str:
        if self.args:
            return f"{self.name}[{', '.join('|'.join(sorted(map(repr, a))) for a in self.args)}]"
        return self.name


TypeSet = frozenset  # of TypeRef
EMPTY: frozenset = frozenset()


# ------------------------------------------------------------------------------------------------
# program entities
# ------------------------------------------------------------------------------------------------

class FuncInfo:
    def __init__(self, module: "ModuleInfo", node: ast.FunctionDef | ast.AsyncFunctionDef,
                 cls: "ClassInfo | None", outer: "FuncInfo | None" = None):
        self.module = module
        self.node = node
        self.cls = cls
        self.outer = outer
        self.name = node.name
        self.is_async = isinstance(node, ast.AsyncFunctionDef)
        self.decorators = [ast.unparse(d) for d in node.decorator_list]

    @property
    def qualname(self) -> str:
        if self.outer is not None:
            return f"{self.outer.qualname}.<locals>.{self.name}"
        if self.cls is not None:
            return f"{self.module.name}:{self.cls.name}.{self.name}"
        return f"{self.module.name}:{self.name}"

    @property
    def short(self) -> str:
        return self.qualname.split(":", 1)[1]

    @property
    def is_property(self) -> bool:
        return any(d == "property" or d.endswith(".setter") or d == "cached_property" or d.endswith(".cached_property")
                   for d in self.decorators)

    @property
    def is_static(self) -> bool:
        return "staticmethod" in self.decorators

    @property
    def is_classmethod(self) -> bool:
        return "classmethod" in self.decorators

    def params(self) -> list[ast.arg]:
        a = self.node.args
        return list(a.posonlyargs) + list(a.args) + list(a.kwonlyargs)

    def loc(self, node: ast.AST | None = None) -> str:
        n = node if node is not None else self.node
        return f"{self.module.relpath}:{getattr(n, 'lineno', '?')}"

    def __repr__(self) -> str:
        return f"<func {self.qualname}>"


class ClassInfo:
    def __init__(self, module: "ModuleInfo", node: ast.ClassDef):
        self.module = module
        self.node = node
        self.name = node.name
        self.methods: dict[str, FuncInfo] = {}
        self.class_attrs: dict[str, ast.AST] = {}          # name -> value expr (or annotation-only: None)
        self.class_attr_ann: dict[str, ast.AST] = {}       # name -> annotation expr
        self.inst_attr_ann: dict[str, ast.AST] = {}        # self.x: T
        self.inst_attr_vals: dict[str, list[tuple[FuncInfo, ast.AST]]] = {}  # self.x = <expr> sites
        self.base_exprs = list(node.bases)
        self.bases: list[ClassInfo] = []
        self.ext_bases: list[str] = []
        self.subclasses_direct: list[ClassInfo] = []
        self._mro: list[ClassInfo] | None = None

    @property
    def qualname(self) -> str:
        return f"{self.module.name}:{self.name}"

    def mro(self) -> list["ClassInfo"]:
        if self._mro is None:
            self._mro = _c3(self)
        return self._mro

    def is_subclass_of(self, other: "ClassInfo") -> bool:
        return other in self.mro()

    def all_subclasses(self) -> list["ClassInfo"]:
        out, seen, todo = [], set(), list(self.subclasses_direct)
        while todo:
            c = todo.pop()
            if id(c) in seen:
                continue
            seen.add(id(c))
            out.append(c)
            todo.extend(c.subclasses_direct)
        return out

    def find_method(self, name: str) -> FuncInfo | None:
        for c in self.mro():
            if name in c.methods:
                return c.methods[name]
        return None

    def find_method_after(self, name: str, after: "ClassInfo") -> FuncInfo | None:
        """super() lookup: next definition of `name` after class `after` in self's MRO."""
        m = self.mro()
        if after in m:
            m = m[m.index(after) + 1:]
        for c in m:
            if name in c.methods:
                return c.methods[name]
        return None

    def attr_annotation(self, name: str) -> tuple["ClassInfo", ast.AST] | None:
        for c in self.mro():
            if name in c.inst_attr_ann:
                return c, c.inst_attr_ann[name]
            if name in c.class_attr_ann:
                return c, c.class_attr_ann[name]
        return None

    def has_ext_base(self, name: str) -> bool:
        return any(name in c.ext_bases for c in self.mro())

    def loc(self) -> str:
        return f"{self.module.relpath}:{self.node.lineno}"

    def __repr__(self) -> str:
        return f"<class {self.qualname}>"


def _c3(cls: ClassInfo) -> list[ClassInfo]:
    seqs = [b.mro()[:] for b in cls.bases] + [list(cls.bases)]
    res = [cls]
    while True:
        seqs = [s for s in seqs if s]
        if not seqs:
            return res
        for s in seqs:
            cand = s[0]
            if not any(cand in t[1:] for t in seqs):
                break
        else:  # inconsistent hierarchy: fall back to depth-first
            cand = seqs[0][0]
        res.append(cand)
        for s in seqs:
            if s and s[0] is cand:
                del s[0]


class ModuleInfo:
    def __init__(self, name: str, path: str, relpath: str, source: str, tree: ast.Module):
        self.name = name
        self.path = path
        self.relpath = relpath
        self.source = source
        self.tree = tree
        self.imports: dict[str, str] = {}        # local name -> dotted target ("pkg.mod" or "pkg.mod:Name")
        self.functions: dict[str, FuncInfo] = {}
        self.classes: dict[str, ClassInfo] = {}
        self.constants: dict[str, ast.AST] = {}  # top-level NAME = <expr>  (last assignment wins)
        self.const_ann: dict[str, ast.AST] = {}
        self.is_test = ".test." in name or name.endswith(".test")
        self.is_config = ".engine.configuration" in name

    def __repr__(self) -> str:
        return f"<module {self.name}>"


# ------------------------------------------------------------------------------------------------
# program
# ------------------------------------------------------------------------------------------------

class Program:
    def __init__(self, repo: str | None = None, overrides: dict[str, str] | None = None):
        """overrides: relpath -> source text (used by the self-test on scratch variants without
        touching /repo)."""
        self.repo = repo or REPO
        self.overrides = overrides or {}
        self.modules: dict[str, ModuleInfo] = {}
        self.parse_errors: list[str] = []
        self._load()
        self._link()

    # -- loading -------------------------------------------------------------------------------
    def _load(self) -> None:
        root = os.path.join(self.repo, PKG)
        if not os.path.isdir(root):
            raise AnchorError(f"package directory {root} not found")
        for dirpath, dirnames, filenames in os.walk(root):
            dirnames[:] = sorted(d for d in dirnames if d not in ("__pycache__", "node_modules", "frontend-dist"))
            for fn in sorted(filenames):
                if not fn.endswith(".py"):
                    continue
                path = os.path.join(dirpath, fn)
                rel = os.path.relpath(path, self.repo)
                parts = rel[:-3].split(os.sep)
                if parts[-1] == "__init__":
                    parts = parts[:-1]
                name = ".".join(parts)
                try:
                    if rel in self.overrides:
                        src = self.overrides[rel]
                    else:
                        with open(path, encoding="utf-8") as f:
                            src = f.read()
                    tree = ast.parse(src, filename=rel)
                except (SyntaxError, UnicodeDecodeError, OSError) as ex:
                    self.parse_errors.append(f"{rel}: {ex}")
                    continue
                m = ModuleInfo(name, path, rel, src, tree)
                self.modules[name] = m
                self._index_module(m)

    def _index_module(self, m: ModuleInfo) -> None:
        for st in _toplevel_statements(m.tree.body):
            if isinstance(st, ast.Import):
                for a in st.names:
                    if a.asname:
                        m.imports[a.asname] = a.name
                    else:
                        m.imports[a.name.split(".")[0]] = a.name.split(".")[0]
            elif isinstance(st, ast.ImportFrom):
                base = st.module or ""
                if st.level:
                    pkg_parts = m.name.split(".")
                    if not m.path.endswith("__init__.py"):
                        pkg_parts = pkg_parts[:-1]
                    pkg_parts = pkg_parts[:len(pkg_parts) - (st.level - 1)]
                    base = ".".join(pkg_parts + ([st.module] if st.module else []))
                for a in st.names:
                    m.imports[a.asname or a.name] = f"{base}:{a.name}"
            elif isinstance(st, (ast.FunctionDef, ast.AsyncFunctionDef)):
                m.functions[st.name] = FuncInfo(m, st, None)
            elif isinstance(st, ast.ClassDef):
                m.classes[st.name] = self._index_class(m, st)
            elif isinstance(st, ast.Assign):
                for t in st.targets:
                    if isinstance(t, ast.Name):
                        m.constants[t.id] = st.value
            elif isinstance(st, ast.AnnAssign) and isinstance(st.target, ast.Name):
                m.const_ann[st.target.id] = st.annotation
                if st.value is not None:
                    m.constants[st.target.id] = st.value

    def _index_class(self, m: ModuleInfo, node: ast.ClassDef) -> ClassInfo:
        c = ClassInfo(m, node)
        for st in node.body:
            if isinstance(st, (ast.FunctionDef, ast.AsyncFunctionDef)):
                f = FuncInfo(m, st, c)
                # property setters share the name; keep the getter as canonical, setter under name.setter
                if any(d.endswith(".setter") for d in f.decorators):
                    c.methods[st.name + ".setter"] = f
                else:
                    c.methods[st.name] = f
            elif isinstance(st, ast.Assign):
                for t in st.targets:
                    if isinstance(t, ast.Name):
                        c.class_attrs[t.id] = st.value
            elif isinstance(st, ast.AnnAssign) and isinstance(st.target, ast.Name):
                c.class_attr_ann[st.target.id] = st.annotation
                if st.value is not None:
                    c.class_attrs[st.target.id] = st.value
        for f in list(c.methods.values()):
            selfname = f.node.args.args[0].arg if f.node.args.args and not f.is_static else None
            if selfname is None:
                continue
            for n in ast.walk(f.node):
                if isinstance(n, ast.AnnAssign) and _is_self_attr(n.target, selfname):
                    c.inst_attr_ann.setdefault(n.target.attr, n.annotation)
                    if n.value is not None:
                        c.inst_attr_vals.setdefault(n.target.attr, []).append((f, n.value))
                elif isinstance(n, ast.Assign):
                    for t in n.targets:
                        if _is_self_attr(t, selfname):
                            c.inst_attr_vals.setdefault(t.attr, []).append((f, n.value))
        return c

    # -- linking -------------------------------------------------------------------------------
    def _link(self) -> None:
        for m in self.modules.values():
            for c in m.classes.values():
                for b in c.base_exprs:
                    tgt = b.value if isinstance(b, ast.Subscript) else b  # Generic[T], Iterable[Tag]
                    ci = self.resolve_class_expr(m, tgt)
                    if ci is not None:
                        c.bases.append(ci)
                        ci.subclasses_direct.append(c)
                    else:
                        c.ext_bases.append(ast.unparse(tgt).split(".")[-1])

    # -- lookups -------------------------------------------------------------------------------
    def module(self, name: str) -> ModuleInfo:
        if name not in self.modules:
            raise AnchorError(f"module {name} not found")
        return self.modules[name]

    def cls(self, qual: str) -> ClassInfo:
        mod, _, name = qual.partition(":")
        m = self.module(mod)
        if name not in m.classes:
            raise AnchorError(f"class {qual} not found")
        return m.classes[name]

    def func(self, qual: str) -> FuncInfo:
        mod, _, name = qual.partition(":")
        m = self.module(mod)
        if "." in name:
            cn, fn = name.split(".", 1)
            if cn not in m.classes:
                raise AnchorError(f"class {mod}:{cn} not found (looking for {qual})")
            c = m.classes[cn]
            if fn not in c.methods:
                raise AnchorError(f"method {qual} not found")
            return c.methods[fn]
        if name not in m.functions:
            raise AnchorError(f"function {qual} not found")
        return m.functions[name]

    def try_func(self, qual: str) -> FuncInfo | None:
        try:
            return self.func(qual)
        except AnchorError:
            return None

    def constant(self, qual: str) -> ast.AST:
        mod, _, name = qual.partition(":")
        m = self.module(mod)
        if name not in m.constants:
            raise AnchorError(f"module constant {qual} not found")
        return m.constants[name]

    def resolve_dotted(self, target: str):
        """'pkg.mod' | 'pkg.mod:Name' -> ModuleInfo | ClassInfo | FuncInfo | ('const', module, name) | None.
        Follows re-exports through intermediate import tables (bounded)."""
        for _ in range(6):
            mod, sep, name = target.partition(":")
            if not sep:
                return self.modules.get(mod)
            m = self.modules.get(mod)
            if m is None:
                return None
            if name in m.classes:
                return m.classes[name]
            if name in m.functions:
                return m.functions[name]
            if name in m.constants:
                return ("const", m, name)
            sub = self.modules.get(f"{mod}.{name}")
            if sub is not None:
                return sub
            if name in m.imports:
                target = m.imports[name]
                continue
            return None
        return None

    def resolve_name(self, m: ModuleInfo, name: str):
        """Resolve a bare name used in module m."""
        if name in m.classes:
            return m.classes[name]
        if name in m.functions:
            return m.functions[name]
        if name in m.imports:
            return self.resolve_dotted(m.imports[name])
        if name in m.constants:
            return ("const", m, name)
        return None

    def resolve_expr_entity(self, m: ModuleInfo, expr: ast.AST):
        """Resolve Name / dotted Attribute chains to a module-level entity (class, function,
        module, constant), or None."""
        if isinstance(expr, ast.Name):
            return self.resolve_name(m, expr.id)
        if isinstance(expr, ast.Attribute):
            base = self.resolve_expr_entity(m, expr.value)
            if isinstance(base, ModuleInfo):
                return self.resolve_dotted(f"{base.name}:{expr.attr}")
            if isinstance(base, ClassInfo):
                f = base.find_method(expr.attr)
                if f is not None:
                    return f
                for c in base.mro():
                    if expr.attr in c.class_attrs:
                        return ("classattr", c, expr.attr)
            return None
        if isinstance(expr, ast.Constant) and isinstance(expr.value, str):
            # string annotation
            try:
                return self.resolve_expr_entity(m, ast.parse(expr.value, mode="eval").body)
            except SyntaxError:
                return None
        return None

    def resolve_class_expr(self, m: ModuleInfo, expr: ast.AST) -> ClassInfo | None:
        e = self.resolve_expr_entity(m, expr)
        return e if isinstance(e, ClassInfo) else None

    # -- iteration -----------------------------------------------------------------------------
    def iter_modules(self, tests: bool = False, config: bool = False) -> Iterator[ModuleInfo]:
        for m in self.modules.values():
            if m.is_test and not tests:
                continue
            if m.is_config and not config:
                continue
            yield m

    def iter_classes(self, **kw) -> Iterator[ClassInfo]:
        for m in self.iter_modules(**kw):
            yield from m.classes.values()

    def iter_functions(self, **kw) -> Iterator[FuncInfo]:
        for m in self.iter_modules(**kw):
            yield from m.functions.values()
            for c in m.classes.values():
                yield from c.methods.values()


def _toplevel_statements(body: Iterable[ast.stmt]) -> Iterator[ast.stmt]:
    """Top-level statements including those under `if TYPE_CHECKING:` / try-import guards."""
    for st in body:
        if isinstance(st, ast.If):
            yield from _toplevel_statements(st.body)
            yield from _toplevel_statements(st.orelse)
        elif isinstance(st, ast.Try):
            yield from _toplevel_statements(st.body)
            for h in st.handlers:
                yield from _toplevel_statements(h.body)
            yield from _toplevel_statements(st.orelse)
            yield from _toplevel_statements(st.finalbody)
        else:
            yield st


def _is_self_attr(t: ast.AST, selfname: str) -> bool:
    return isinstance(t, ast.Attribute) and isinstance(t.value, ast.Name) and t.value.id == selfname


_PROGRAM_CACHE: dict[tuple, Program] = {}


def load_program(repo: str | None = None) -> Program:
    key = (repo or REPO,)
    if key not in _PROGRAM_CACHE:
        _PROGRAM_CACHE[key] = Program(repo)
    return _PROGRAM_CACHE[key]


# ------------------------------------------------------------------------------------------------
# small AST helpers shared by all rules
# ------------------------------------------------------------------------------------------------

def norm(node: ast.AST) -> str:
    """Normalised source text of a node (used for construct keys, never line numbers)."""
    try:
        return " ".join(ast.unparse(node).split())
    except Exception:  # pragma: no cover
        return ast.dump(node)


def stmt_header(node: ast.AST) -> str:
    """One-line text for a statement: for compound statements only the header."""
    if isinstance(node, (ast.If, ast.While)):
        return f"{type(node).__name__.lower()} {norm(node.test)}:"
    if isinstance(node, (ast.For, ast.AsyncFor)):
        return f"for {norm(node.target)} in {norm(node.iter)}:"
    if isinstance(node, (ast.With, ast.AsyncWith)):
        return "with " + ", ".join(norm(i) for i in node.items) + ":"
    if isinstance(node, ast.Try):
        return "try:"
    if isinstance(node, (ast.FunctionDef, ast.AsyncFunctionDef)):
        return f"def {node.name}(...)"
    if isinstance(node, ast.ClassDef):
        return f"class {node.name}"
    if isinstance(node, ast.Match):
        return f"match {norm(node.subject)}:"
    return norm(node)


def walk_no_nested(node: ast.AST) -> Iterator[ast.AST]:
    """ast.walk that does not descend into nested function/class definitions or lambdas
    (the node itself is yielded even if it is a def)."""
    todo = [node]
    first = True
    while todo:
        n = todo.pop()
        yield n
        if not first and isinstance(n, (ast.FunctionDef, ast.AsyncFunctionDef, ast.ClassDef, ast.Lambda)):
            continue
        first = False
        todo.extend(reversed(list(ast.iter_child_nodes(n))))


def attr_chain(expr: ast.AST) -> list[str] | None:
    """a.b.c -> ['a','b','c']; None if not a pure Name/Attribute chain."""
    parts: list[str] = []
    while isinstance(expr, ast.Attribute):
        parts.append(expr.attr)
        expr = expr.value
    if isinstance(expr, ast.Name):
        parts.append(expr.id)
        return parts[::-1]
    return None


def parent_map(root: ast.AST) -> dict[int, ast.AST]:
    pm: dict[int, ast.AST] = {}
    for p in ast.walk(root):
        for c in ast.iter_child_nodes(p):
            pm[id(c)] = p
    return pm
