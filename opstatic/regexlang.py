"""Regex language analysis on the standard library's regex AST (DESIGN Appendix A.8).

Builds a Thompson NFA from `re._parser.parse(pattern)` for the constructs the repo's templates use
(literals, classes, categories, branches, groups, greedy/lazy repeats, ^ $ anchors and a
single-literal negative look-behind, handled as a constraint on the last consumed symbol) and decides
language equivalence of two anchored patterns over a finite alphabet of representative characters by
a product of the determinised automata; a shortest distinguishing word is returned.
"""
from __future__ import annotations

import re._constants as C
import re._parser as P
from collections import deque

from .model import AnchorError

EPS = None


class NFA:
    def __init__(self):
        self.n = 0
        self.trans: list[list[tuple]] = []   # state -> [(label, target)], label: None | ('set', frozenset(chars)) | ('notlast', char)

    def new(self) -> int:
        self.trans.append([])
        self.n += 1
        return self.n - 1

    def add(self, a: int, label, b: int):
        self.trans[a].append((label, b))


def _matches(item, ch: str) -> bool:
    op, av = item
    o = ord(ch)
    if op is C.LITERAL:
        return av == o
    if op is C.NOT_LITERAL:
        return av != o
    if op is C.ANY:
        return ch != "\n"
    if op is C.IN:
        neg = False
        hit = False
        for x in av:
            if x[0] is C.NEGATE:
                neg = True
            elif x[0] is C.LITERAL and x[1] == o:
                hit = True
            elif x[0] is C.RANGE and x[1][0] <= o <= x[1][1]:
                hit = True
            elif x[0] is C.CATEGORY:
                cat = x[1]
                if cat is C.CATEGORY_DIGIT and ch.isdigit():
                    hit = True
                elif cat is C.CATEGORY_NOT_DIGIT and not ch.isdigit():
                    hit = True
                elif cat is C.CATEGORY_SPACE and ch.isspace():
                    hit = True
                elif cat is C.CATEGORY_NOT_SPACE and not ch.isspace():
                    hit = True
                elif cat is C.CATEGORY_WORD and (ch.isalnum() or ch == "_"):
                    hit = True
                elif cat is C.CATEGORY_NOT_WORD and not (ch.isalnum() or ch == "_"):
                    hit = True
        return hit != neg
    raise AnchorError(f"regexlang: unsupported atom {op}")


def build(pattern: str, alphabet: list[str], mode: str = "full") -> tuple[NFA, int, int]:
    """NFA (start, accept) of a pattern over the given representative alphabet.

    mode "full": the word is the whole match (re.fullmatch; `^`/`$` inside the pattern are honoured);
    mode "match": re.match - the match starts at position 0 and any suffix may follow;
    mode "search": re.search - any prefix may precede and any suffix may follow the match
    (`^` edges are enabled only at position 0, `$` edges only at the end of the input)."""
    tree = P.parse(pattern)
    nfa = NFA()

    def seq(items, start: int) -> int:
        cur = start
        for it in items:
            cur = one(it, cur)
        return cur

    def one(item, start: int) -> int:
        op, av = item
        if op in (C.LITERAL, C.NOT_LITERAL, C.ANY, C.IN):
            end = nfa.new()
            chars = frozenset(ch for ch in alphabet if _matches(item, ch))
            nfa.add(start, ("set", chars), end)
            return end
        if op is C.SUBPATTERN:
            return seq(av[3], start)
        if op is C.BRANCH:
            end = nfa.new()
            for b in av[1]:
                s = nfa.new()
                nfa.add(start, EPS, s)
                e = seq(b, s)
                nfa.add(e, EPS, end)
            return end
        if op in (C.MAX_REPEAT, C.MIN_REPEAT):
            lo, hi, sub = av
            cur = start
            for _ in range(lo):
                cur = seq(sub, cur)
            if hi is C.MAXREPEAT:
                loop_s = nfa.new()
                nfa.add(cur, EPS, loop_s)
                loop_e = seq(sub, loop_s)
                end = nfa.new()
                nfa.add(loop_e, EPS, loop_s)
                nfa.add(loop_s, EPS, end)
                return end
            end = nfa.new()
            nfa.add(cur, EPS, end)
            for _ in range(hi - lo):
                cur = seq(sub, cur)
                nfa.add(cur, EPS, end)
            return end
        if op is C.AT:
            if av in (C.AT_BEGINNING, C.AT_BEGINNING_STRING):
                end = nfa.new()
                nfa.add(start, ("atstart",), end)
                return end
            if av in (C.AT_END, C.AT_END_STRING):
                end = nfa.new()
                nfa.add(start, ("atend",), end)
                return end
            raise AnchorError(f"regexlang: unsupported anchor {av}")
        if op is C.ASSERT_NOT:
            direction, sub = av
            if direction == -1 and len(sub) == 1 and sub[0][0] is C.LITERAL:
                end = nfa.new()
                nfa.add(start, ("notlast", chr(sub[0][1])), end)
                return end
            raise AnchorError("regexlang: only a single-literal negative look-behind is supported")
        raise AnchorError(f"regexlang: unsupported construct {op}")

    s0 = nfa.new()
    acc = seq(list(tree), s0)
    if mode in ("match", "search"):
        every = frozenset(alphabet)
        acc2 = nfa.new()
        nfa.add(acc, EPS, acc2)
        nfa.add(acc2, ("set", every), acc2)
        acc = acc2
        if mode == "search":
            s1 = nfa.new()
            nfa.add(s1, ("set", every), s1)
            nfa.add(s1, EPS, s0)
            s0 = s1
    elif mode != "full":
        raise AnchorError(f"regexlang: unknown mode {mode}")
    return nfa, s0, acc


def _closure(nfa: NFA, states: set, last, pos_start: bool) -> set:
    """epsilon/assertion closure of (state) given the last consumed symbol; 'atend' edges are kept for acceptance."""
    out = set(states)
    dq = deque(states)
    while dq:
        s = dq.popleft()
        for lab, t in nfa.trans[s]:
            ok = False
            if lab is EPS:
                ok = True
            elif lab[0] == "notlast":
                ok = last != lab[1]
            elif lab[0] == "atstart":
                ok = pos_start
            if ok and t not in out:
                out.add(t)
                dq.append(t)
    return out


def _accepting(nfa: NFA, states: set, acc: int, last) -> bool:
    """Is acc reachable at end of input (atend edges enabled)?"""
    out = set(states)
    dq = deque(states)
    while dq:
        s = dq.popleft()
        if s == acc:
            return True
        for lab, t in nfa.trans[s]:
            ok = lab is EPS or lab[0] == "atend" or (lab[0] == "notlast" and last != lab[1])
            if ok and t not in out:
                out.add(t)
                dq.append(t)
    return acc in out


def difference(p1: str, p2: str, alphabet: list[str], max_states: int = 20000, mode1: str = "full", mode2: str = "full",
               only: str | None = None):
    """Shortest word (as str) on which the two patterns disagree, with (in1, in2); None if equivalent.

    only="1-2" reports only words accepted by p1 and not by p2 (language inclusion L1 <= L2)."""
    n1, s1, a1 = build(p1, alphabet, mode1)
    n2, s2, a2 = build(p2, alphabet, mode2)
    start = (frozenset(_closure(n1, {s1}, None, True)), frozenset(_closure(n2, {s2}, None, True)), None)
    seen = {start}
    dq = deque([(start, "")])
    while dq:
        (q1, q2, last), word = dq.popleft()
        acc1, acc2 = _accepting(n1, set(q1), a1, last), _accepting(n2, set(q2), a2, last)
        if acc1 != acc2 and (only is None or (only == "1-2" and acc1)):
            return word, acc1, acc2
        for ch in alphabet:
            t1 = {t for s in q1 for lab, t in n1.trans[s] if lab is not EPS and lab[0] == "set" and ch in lab[1]}
            t2 = {t for s in q2 for lab, t in n2.trans[s] if lab is not EPS and lab[0] == "set" and ch in lab[1]}
            if not t1 and not t2:
                continue
            nxt = (frozenset(_closure(n1, t1, ch, False)), frozenset(_closure(n2, t2, ch, False)), ch)
            if nxt not in seen:
                seen.add(nxt)
                if len(seen) > max_states:
                    raise AnchorError("regexlang: product automaton too large")
                dq.append((nxt, word + ch))
    return None


def accepts_some(p: str, alphabet: list[str], pred) -> str | None:
    """Shortest accepted word satisfying pred(word) among words up to the automaton's reachable configurations."""
    n, s, a = build(p, alphabet)
    start = (frozenset(_closure(n, {s}, None, True)), None)
    seen = {start}
    dq = deque([(start, "")])
    while dq:
        (q, last), word = dq.popleft()
        if _accepting(n, set(q), a, last) and pred(word):
            return word
        if len(word) > 8:
            continue
        for ch in alphabet:
            t = {t_ for st in q for lab, t_ in n.trans[st] if lab is not EPS and lab[0] == "set" and ch in lab[1]}
            if not t:
                continue
            nxt = (frozenset(_closure(n, t, ch, False)), ch)
            key = (nxt, pred.__name__ if hasattr(pred, "__name__") else "", len(word) + 1 if len(word) < 3 else 3)
            if (nxt, word[-2:] + ch) not in seen:
                seen.add((nxt, word[-2:] + ch))
                dq.append((nxt, word + ch))
    return None
