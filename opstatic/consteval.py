"""Constant folding of module/class level string tables read from the source (never imported)."""
from __future__ import annotations

import ast
import re as _re

from .model import AnchorError, ClassInfo, ModuleInfo, Program


def fold_str(prog: Program, scope, expr: ast.AST, depth: int = 0) -> str:
    """Fold a string expression built from constants, names of the same class/module scope, + and f-strings."""
    if depth > 10:
        raise AnchorError("constant folding too deep")
    if isinstance(expr, ast.Constant) and isinstance(expr.value, str):
        return expr.value
    if isinstance(expr, ast.BinOp) and isinstance(expr.op, ast.Add):
        return fold_str(prog, scope, expr.left, depth + 1) + fold_str(prog, scope, expr.right, depth + 1)
    if isinstance(expr, ast.JoinedStr):
        out = ""
        for v in expr.values:
            out += fold_str(prog, scope, v.value if isinstance(v, ast.FormattedValue) else v, depth + 1)
        return out
    if isinstance(expr, ast.Name):
        if isinstance(scope, ClassInfo):
            for c in scope.mro():
                if expr.id in c.class_attrs and c.class_attrs[expr.id] is not None:
                    return fold_str(prog, c, c.class_attrs[expr.id], depth + 1)
            scope = scope.module
        if isinstance(scope, ModuleInfo) and expr.id in scope.constants:
            return fold_str(prog, scope, scope.constants[expr.id], depth + 1)
    if isinstance(expr, ast.Attribute):
        ent = prog.resolve_expr_entity(scope.module if isinstance(scope, ClassInfo) else scope, expr)
        if isinstance(ent, tuple) and ent[0] == "classattr":
            return fold_str(prog, ent[1], ent[1].class_attrs[ent[2]], depth + 1)
        if isinstance(ent, tuple) and ent[0] == "const":
            return fold_str(prog, ent[1], ent[1].constants[ent[2]], depth + 1)
    raise AnchorError(f"cannot fold `{ast.unparse(expr)[:60]}` to a constant string")


_MISSING = object()


class _ExprFn:
    """Shim that lets partial_eval evaluate a module-level expression."""
    def __init__(self, module, name, expr):
        self.module, self.qualname = module, f"{module.name}:{name}"
        self.node = ast.Module(body=[ast.Return(value=expr)], type_ignores=[])


def const_value(prog: Program, module, name: str, _busy=set()):
    """Value of a module-level constant: folded, or evaluated through the repo's pure string builders."""
    expr = module.constants[name]
    try:
        return fold_str(prog, module, expr)
    except AnchorError:
        pass
    key = (module.name, name)
    if key in _busy:
        raise AnchorError(f"const_value: cyclic constant {name}")
    _busy.add(key)
    try:
        kind, val = partial_eval(prog, _ExprFn(module, name, expr), {})
    finally:
        _busy.discard(key)
    if kind != "return":
        raise AnchorError(f"const_value: {name} raises")
    return val


def eval_expr(prog: Program, module, expr: ast.AST):
    """Value of a constant expression written in `module` (constants, pure string builders of the repo)."""
    kind, val = partial_eval(prog, _ExprFn(module, "<expr>", expr), {})
    if kind != "return":
        raise AnchorError(f"eval_expr: `{ast.unparse(expr)[:60]}` raises")
    return val


class Sym(str):
    """A placeholder symbol standing for an interpolated list (rendered as one private-use character)."""


def partial_eval(prog: Program, fn, bindings: dict):
    """Evaluate a small pure string-building function with concrete / placeholder arguments.

    Supported: Assign to names, If on decidable conditions, Return, Raise (-> ('raise', text)),
    IfExp, BoolOp, Compare (is None / ==), BinOp +, f-strings, names, constants and
    `"sep".join(<generator over a placeholder parameter>)` (-> the placeholder's symbol).
    Returns ('return', value) or ('raise', text)."""
    env = dict(bindings)

    def ev(e):
        if isinstance(e, ast.Constant):
            return e.value
        if isinstance(e, ast.Name):
            if e.id in env:
                return env[e.id]
            m = fn.module
            if e.id in m.constants:
                return const_value(prog, m, e.id)
            ent = prog.resolve_name(m, e.id)
            if isinstance(ent, tuple) and ent[0] == "const":
                return const_value(prog, ent[1], ent[2])
            raise AnchorError(f"partial_eval: unbound name {e.id} in {fn.qualname}")
        if isinstance(e, (ast.List, ast.Tuple)):
            return [ev(x) for x in e.elts]
        if isinstance(e, ast.Attribute):
            ent = prog.resolve_expr_entity(fn.module, e)
            if isinstance(ent, tuple) and ent[0] == "const":
                return const_value(prog, ent[1], ent[2])
            if isinstance(ent, tuple) and ent[0] == "classattr":
                return fold_str(prog, ent[1], ent[1].class_attrs[ent[2]])
            raise AnchorError(f"partial_eval: unsupported attribute `{ast.unparse(e)[:70]}` in {fn.qualname}")
        if isinstance(e, ast.JoinedStr):
            out = ""
            for v in e.values:
                x = ev(v.value) if isinstance(v, ast.FormattedValue) else ev(v)
                out += "" if x is None else str(x)
            return out
        if isinstance(e, ast.BinOp) and isinstance(e.op, ast.Add):
            return ev(e.left) + ev(e.right)
        if isinstance(e, ast.IfExp):
            return ev(e.body) if truth(ev(e.test)) else ev(e.orelse)
        if isinstance(e, ast.BoolOp):
            vals = [ev(v) for v in e.values]
            if isinstance(e.op, ast.And):
                for v in vals:
                    if not truth(v):
                        return v
                return vals[-1]
            for v in vals:
                if truth(v):
                    return v
            return vals[-1]
        if isinstance(e, ast.UnaryOp) and isinstance(e.op, ast.Not):
            return not truth(ev(e.operand))
        if isinstance(e, ast.Compare) and len(e.ops) == 1:
            l, r = ev(e.left), ev(e.comparators[0])
            if isinstance(e.ops[0], ast.Is):
                return l is r
            if isinstance(e.ops[0], ast.IsNot):
                return l is not r
            if isinstance(e.ops[0], ast.Eq):
                return l == r
            if isinstance(e.ops[0], ast.NotEq):
                return l != r
        if isinstance(e, ast.Call) and isinstance(e.func, ast.Attribute) and e.func.attr == "join" and e.args \
                and isinstance(e.args[0], (ast.GeneratorExp, ast.ListComp)):
            src = e.args[0].generators[0].iter
            v = ev(src)
            if isinstance(v, Sym):
                return str(v)
            if v is None or v == []:
                return ""
            if isinstance(v, list) and len(e.args[0].generators) == 1 and not e.args[0].generators[0].ifs \
                    and isinstance(e.args[0].generators[0].target, ast.Name):
                var = e.args[0].generators[0].target.id
                parts = []
                saved = env.get(var, _MISSING)
                for item in v:
                    env[var] = item
                    parts.append(ev(e.args[0].elt))
                if saved is _MISSING:
                    env.pop(var, None)
                else:
                    env[var] = saved
                return ev(e.func.value).join(parts)
            raise AnchorError("partial_eval: join over a non-placeholder")
        if isinstance(e, ast.Call) and isinstance(e.func, ast.Attribute) and e.func.attr == "join" and len(e.args) == 1:
            v = ev(e.args[0])
            if isinstance(v, list) and all(isinstance(x, str) for x in v):
                return ev(e.func.value).join(v)
        if isinstance(e, ast.Call) and ast.unparse(e.func) == "re.escape" and len(e.args) == 1:
            # the standard library's own escaping applied to a constant; no repository code runs
            v = ev(e.args[0])
            if isinstance(v, str) and not isinstance(v, Sym):
                return _re.escape(v)
        if isinstance(e, ast.Call) and isinstance(e.func, ast.Attribute) and e.func.attr == "replace" and len(e.args) == 2:
            v, a, b = ev(e.func.value), ev(e.args[0]), ev(e.args[1])
            if all(isinstance(x, str) and not isinstance(x, Sym) for x in (v, a, b)):
                return v.replace(a, b)
        if isinstance(e, ast.Call) and isinstance(e.func, (ast.Name, ast.Attribute)):
            callee = prog.resolve_name(fn.module, e.func.id) if isinstance(e.func, ast.Name) \
                else prog.resolve_expr_entity(fn.module, e.func)
            if hasattr(callee, "node") and hasattr(callee, "params"):
                ps = [p.arg for p in callee.params()]
                b = {}
                for i, a in enumerate(e.args):
                    b[ps[i]] = ev(a)
                for k in e.keywords:
                    b[k.arg] = ev(k.value)
                # defaults
                a_ = callee.node.args
                for p, d in zip(a_.args[len(a_.args) - len(a_.defaults):], a_.defaults):
                    b.setdefault(p.arg, ev(d))
                kind, val = partial_eval(prog, callee, b)
                if kind == "raise":
                    raise AnchorError(f"partial_eval: callee {callee.name} raises: {val}")
                return val
        raise AnchorError(f"partial_eval: unsupported expression `{ast.unparse(e)[:70]}` in {fn.qualname}")

    def truth(v):
        if isinstance(v, Sym):
            return True
        return bool(v)

    def run(body):
        for st in body:
            if isinstance(st, ast.Expr) and isinstance(st.value, ast.Constant):
                continue
            if isinstance(st, ast.Assign) and len(st.targets) == 1 and isinstance(st.targets[0], ast.Name):
                env[st.targets[0].id] = ev(st.value)
            elif isinstance(st, ast.If):
                r = run(st.body if truth(ev(st.test)) else st.orelse)
                if r is not None:
                    return r
            elif isinstance(st, ast.Return):
                return ("return", ev(st.value) if st.value is not None else None)
            elif isinstance(st, ast.Raise):
                return ("raise", ast.unparse(st)[:80])
            else:
                raise AnchorError(f"partial_eval: unsupported statement `{ast.unparse(st)[:60]}` in {fn.qualname}")
        return None

    r = run(fn.node.body)
    return r if r is not None else ("return", None)
