"""Constant folding of module/class level string tables read from the source (never imported)."""
from __future__ import annotations

import ast

from .model import AnchorError, ClassInfo, ModuleInfo, Program


def fold_str(prog: Program, scope, expr: ast.AST, depth: int = 0) -> str:
    """Fold a string expression built from constants, names of the same class/module scope, + and f-strings."""
    if depth > 10:
        raise AnchorError("constant folding too deep")
    if isinstance(expr, ast.Constant) and isinstance(expr.value, str):
        return expr.value
    if isinstance(expr, ast.BinOp) and isinstance(expr.op, ast.Add):
        return fold_str(prog, scope, expr.left, depth + 1) + fold_str(prog, scope, expr.right, depth + 1)
    if isinstance(expr, ast.JoinedStr):
        out = ""
        for v in expr.values:
            out += fold_str(prog, scope, v.value if isinstance(v, ast.FormattedValue) else v, depth + 1)
        return out
    if isinstance(expr, ast.Name):
        if isinstance(scope, ClassInfo):
            for c in scope.mro():
                if expr.id in c.class_attrs and c.class_attrs[expr.id] is not None:
                    return fold_str(prog, c, c.class_attrs[expr.id], depth + 1)
            scope = scope.module
        if isinstance(scope, ModuleInfo) and expr.id in scope.constants:
            return fold_str(prog, scope, scope.constants[expr.id], depth + 1)
    if isinstance(expr, ast.Attribute):
        ent = prog.resolve_expr_entity(scope.module if isinstance(scope, ClassInfo) else scope, expr)
        if isinstance(ent, tuple) and ent[0] == "classattr":
            return fold_str(prog, ent[1], ent[1].class_attrs[ent[2]], depth + 1)
        if isinstance(ent, tuple) and ent[0] == "const":
            return fold_str(prog, ent[1], ent[1].constants[ent[2]], depth + 1)
    raise AnchorError(f"cannot fold `{ast.unparse(expr)[:60]}` to a constant string")
