"""Light type inference and call resolution over the program model (class-hierarchy analysis)."""
from __future__ import annotations

import ast
from typing import Iterable

from .model import (ClassInfo, FuncInfo, ModuleInfo, Program, TypeRef, walk_no_nested, attr_chain)

_CONTAINER_ELEM = {"list": 0, "set": 0, "frozenset": 0, "Iterable": 0, "Iterator": 0, "Sequence": 0,
                   "List": 0, "Set": 0, "deque": 0, "Queue": 0, "Generator": 0, "Collection": 0, "tuple": 0,
                   "Tuple": 0}
_MAPPING = {"dict", "Dict", "Mapping", "MutableMapping", "defaultdict", "OrderedDict"}


def T(name: str, *args, cls: ClassInfo | None = None) -> TypeRef:
    return TypeRef(name, tuple(frozenset(a) for a in args), cls)


def class_type(c: ClassInfo) -> TypeRef:
    return TypeRef(c.qualname, (), c)


class Resolver:
    def __init__(self, prog: Program):
        self.prog = prog
        self._env_cache: dict[int, dict[str, frozenset]] = {}
        self._ret_cache: dict[int, frozenset] = {}
        self._in_progress: set[int] = set()
        self.unresolved_calls = 0
        self.resolved_calls = 0

    # -- annotations ---------------------------------------------------------------------------
    def ann_types(self, m: ModuleInfo, ann: ast.AST | None, depth: int = 0) -> frozenset:
        if ann is None or depth > 6:
            return frozenset()
        if isinstance(ann, ast.Constant):
            if ann.value is None:
                return frozenset({T("None")})
            if isinstance(ann.value, str):
                try:
                    return self.ann_types(m, ast.parse(ann.value, mode="eval").body, depth + 1)
                except SyntaxError:
                    return frozenset()
            return frozenset()
        if isinstance(ann, ast.BinOp) and isinstance(ann.op, ast.BitOr):
            return self.ann_types(m, ann.left, depth + 1) | self.ann_types(m, ann.right, depth + 1)
        if isinstance(ann, ast.Subscript):
            base = ann.value
            bname = (attr_chain(base) or ["?"])[-1]
            sl = ann.slice
            elts = list(sl.elts) if isinstance(sl, ast.Tuple) else [sl]
            if bname in ("Optional",):
                return self.ann_types(m, elts[0], depth + 1) | {T("None")}
            if bname in ("Union",):
                out: frozenset = frozenset()
                for e in elts:
                    out |= self.ann_types(m, e, depth + 1)
                return out
            if bname in ("Annotated", "Final", "ClassVar"):
                return self.ann_types(m, elts[0], depth + 1)
            if bname == "Literal":
                return frozenset({T("str")})
            if bname in ("type", "Type"):
                inner = self.ann_types(m, elts[0], depth + 1)
                return frozenset({TypeRef("type", (frozenset(inner),))})
            ent = self.prog.resolve_expr_entity(m, base)
            args = tuple(frozenset(self.ann_types(m, e, depth + 1)) for e in elts)
            if isinstance(ent, ClassInfo):
                return frozenset({TypeRef(ent.qualname, args, ent)})
            return frozenset({TypeRef(bname, args)})
        if isinstance(ann, (ast.Name, ast.Attribute)):
            ent = self.prog.resolve_expr_entity(m, ann)
            if isinstance(ent, ClassInfo):
                return frozenset({class_type(ent)})
            if isinstance(ent, tuple) and ent[0] == "const":  # type alias
                _, cm, cname = ent
                return self.ann_types(cm, cm.constants[cname], depth + 1)
            name = (attr_chain(ann) or ["?"])[-1]
            return frozenset({T(name)})
        return frozenset()

    # -- environments --------------------------------------------------------------------------
    def env(self, f: FuncInfo) -> dict[str, frozenset]:
        key = id(f.node)
        if key in self._env_cache:
            return self._env_cache[key]
        env: dict[str, frozenset] = {}
        self._env_cache[key] = env
        if f.outer is not None:
            env.update(self.env(f.outer))
        params = f.params()
        a = f.node.args
        for i, p in enumerate(params):
            if i == 0 and f.cls is not None and not f.is_static and p in (a.posonlyargs + a.args)[:1]:
                if f.is_classmethod:
                    env[p.arg] = frozenset({TypeRef("type", (frozenset({class_type(f.cls)}),))})
                else:
                    env[p.arg] = frozenset({class_type(f.cls)})
                continue
            ts = self.ann_types(f.module, p.annotation)
            if not ts:
                # default value
                dflt = self._default_for(f, p)
                if dflt is not None:
                    ts = self.infer(dflt, f, {})
            env[p.arg] = ts
        # two rounds for chains of local assignments
        for _ in range(3):
            changed = False
            for n in walk_no_nested(f.node):
                new: list[tuple[str, frozenset]] = []
                if isinstance(n, ast.AnnAssign) and isinstance(n.target, ast.Name):
                    new.append((n.target.id, self.ann_types(f.module, n.annotation)))
                elif isinstance(n, ast.Assign):
                    ts = None
                    for t in n.targets:
                        if isinstance(t, ast.Name):
                            if ts is None:
                                ts = self.infer(n.value, f, env)
                            new.append((t.id, ts))
                        elif isinstance(t, ast.Tuple):
                            vt = self.infer(n.value, f, env)
                            for idx, el in enumerate(t.elts):
                                if isinstance(el, ast.Name):
                                    new.append((el.id, self._tuple_elem(vt, idx)))
                elif isinstance(n, ast.NamedExpr) and isinstance(n.target, ast.Name):
                    new.append((n.target.id, self.infer(n.value, f, env)))
                elif isinstance(n, (ast.For, ast.AsyncFor)):
                    et = self.elem_types(self.infer(n.iter, f, env), n.iter, f, env)
                    self._bind_target(n.target, et, new)
                elif isinstance(n, ast.comprehension):
                    et = self.elem_types(self.infer(n.iter, f, env), n.iter, f, env)
                    self._bind_target(n.target, et, new)
                elif isinstance(n, (ast.With, ast.AsyncWith)):
                    for it in n.items:
                        if isinstance(it.optional_vars, ast.Name):
                            ct = self.infer(it.context_expr, f, env)
                            # __enter__ return type, default: same object
                            out: frozenset = frozenset()
                            for t in ct:
                                if t.cls is not None:
                                    ent = t.cls.find_method("__enter__") or t.cls.find_method("__aenter__")
                                    rt = self.return_types(ent) if ent else frozenset()
                                    out |= rt or {t}
                                else:
                                    out |= {t}
                            new.append((it.optional_vars.id, out))
                elif isinstance(n, ast.ExceptHandler) and n.name and n.type is not None:
                    new.append((n.name, self.ann_types(f.module, n.type) if not isinstance(n.type, ast.Tuple)
                                else frozenset().union(*(self.ann_types(f.module, e) for e in n.type.elts))))
                for name, ts in new:
                    if not ts:
                        continue
                    old = env.get(name, frozenset())
                    merged = old | ts
                    if merged != old:
                        env[name] = merged
                        changed = True
            if not changed:
                break
        return env

    def _bind_target(self, target: ast.AST, et: frozenset, new: list) -> None:
        if isinstance(target, ast.Name):
            new.append((target.id, et))
        elif isinstance(target, ast.Tuple):
            for idx, el in enumerate(target.elts):
                if isinstance(el, ast.Name):
                    new.append((el.id, self._tuple_elem(et, idx)))

    def _tuple_elem(self, ts: frozenset, idx: int) -> frozenset:
        out: frozenset = frozenset()
        for t in ts:
            if t.name in ("tuple", "Tuple") and len(t.args) > idx:
                out |= t.args[idx]
        return out

    def _default_for(self, f: FuncInfo, p: ast.arg) -> ast.AST | None:
        a = f.node.args
        pos = list(a.posonlyargs) + list(a.args)
        if p in pos:
            i = pos.index(p) - (len(pos) - len(a.defaults))
            return a.defaults[i] if i >= 0 else None
        if p in a.kwonlyargs:
            return a.kw_defaults[a.kwonlyargs.index(p)]
        return None

    def elem_types(self, ts: frozenset, expr: ast.AST | None = None, f: FuncInfo | None = None,
                   env: dict | None = None) -> frozenset:
        out: frozenset = frozenset()
        for t in ts:
            if t.cls is not None:
                it = t.cls.find_method("__iter__")
                # class deriving Iterable[X]
                for c in t.cls.mro():
                    for b in c.base_exprs:
                        if isinstance(b, ast.Subscript) and (attr_chain(b.value) or ["?"])[-1] in _CONTAINER_ELEM:
                            out |= self.ann_types(c.module, b.slice)
                if not out and it is not None:
                    rt = self.return_types(it)
                    out |= self.elem_types(rt) if rt else frozenset()
            elif t.name in _CONTAINER_ELEM and t.args:
                if t.name in ("tuple", "Tuple") and len(t.args) > 1:
                    for a in t.args:
                        out |= a
                else:
                    out |= t.args[0]
            elif t.name in _MAPPING and t.args:
                out |= t.args[0]
            elif t.name in ("dict_values",) and t.args:
                out |= t.args[0]
            elif t.name in ("dict_items",) and t.args:
                out |= {TypeRef("tuple", (t.args[0], t.args[1]))}
            elif t.name in ("enumerate",) and t.args:
                out |= {TypeRef("tuple", (frozenset({T("int")}), t.args[0]))}
        return out

    # -- expressions ---------------------------------------------------------------------------
    def infer(self, expr: ast.AST, f: FuncInfo | None, env: dict[str, frozenset] | None = None,
              m: ModuleInfo | None = None) -> frozenset:
        if env is None:
            env = self.env(f) if f is not None else {}
        m = m or (f.module if f is not None else None)
        assert m is not None
        if isinstance(expr, ast.Name):
            if expr.id in env:
                return env[expr.id]
            ent = self.prog.resolve_name(m, expr.id)
            if isinstance(ent, ClassInfo):
                return frozenset({TypeRef("type", (frozenset({class_type(ent)}),))})
            if isinstance(ent, tuple) and ent[0] == "const":
                _, cm, cname = ent
                if cname in cm.const_ann:
                    return self.ann_types(cm, cm.const_ann[cname])
                return self.infer(cm.constants[cname], None, {}, cm)
            return frozenset()
        if isinstance(expr, ast.Constant):
            return frozenset({T(type(expr.value).__name__ if expr.value is not None else "None")})
        if isinstance(expr, ast.JoinedStr):
            return frozenset({T("str")})
        if isinstance(expr, ast.Await):
            return self.infer(expr.value, f, env, m)
        if isinstance(expr, ast.IfExp):
            return self.infer(expr.body, f, env, m) | self.infer(expr.orelse, f, env, m)
        if isinstance(expr, ast.BoolOp):
            out: frozenset = frozenset()
            for v in expr.values:
                out |= self.infer(v, f, env, m)
            return out
        if isinstance(expr, ast.NamedExpr):
            return self.infer(expr.value, f, env, m)
        if isinstance(expr, (ast.List, ast.ListComp)):
            el = frozenset()
            if isinstance(expr, ast.List):
                for e in expr.elts[:4]:
                    el |= self.infer(e, f, env, m)
            else:
                el = self.infer(expr.elt, f, self._comp_env(expr, f, env, m), m)
            return frozenset({TypeRef("list", (el,))})
        if isinstance(expr, (ast.Set, ast.SetComp)):
            el = frozenset()
            if isinstance(expr, ast.Set):
                for e in expr.elts[:4]:
                    el |= self.infer(e, f, env, m)
            else:
                el = self.infer(expr.elt, f, self._comp_env(expr, f, env, m), m)
            return frozenset({TypeRef("set", (el,))})
        if isinstance(expr, ast.GeneratorExp):
            el = self.infer(expr.elt, f, self._comp_env(expr, f, env, m), m)
            return frozenset({TypeRef("Iterable", (el,))})
        if isinstance(expr, (ast.Dict, ast.DictComp)):
            if isinstance(expr, ast.Dict):
                k = frozenset().union(*(self.infer(e, f, env, m) for e in expr.keys[:3] if e is not None)) \
                    if expr.keys else frozenset()
                v = frozenset().union(*(self.infer(e, f, env, m) for e in expr.values[:3])) if expr.values else frozenset()
            else:
                ce = self._comp_env(expr, f, env, m)
                k, v = self.infer(expr.key, f, ce, m), self.infer(expr.value, f, ce, m)
            return frozenset({TypeRef("dict", (k, v))})
        if isinstance(expr, ast.Tuple):
            return frozenset({TypeRef("tuple", tuple(self.infer(e, f, env, m) for e in expr.elts))})
        if isinstance(expr, ast.Attribute):
            return self._infer_attr(expr, f, env, m)
        if isinstance(expr, ast.Subscript):
            base = self.infer(expr.value, f, env, m)
            out = frozenset()
            for t in base:
                if t.cls is not None:
                    gi = t.cls.find_method("__getitem__")
                    if gi is not None:
                        out |= self.return_types(gi)
                elif t.name in _MAPPING and len(t.args) > 1:
                    out |= t.args[1]
                elif t.name in ("tuple", "Tuple") and t.args:
                    if isinstance(expr.slice, ast.Constant) and isinstance(expr.slice.value, int) \
                            and expr.slice.value < len(t.args):
                        out |= t.args[expr.slice.value]
                    else:
                        for a in t.args:
                            out |= a
                elif t.name in _CONTAINER_ELEM and t.args:
                    if isinstance(expr.slice, ast.Slice):
                        out |= {t}
                    else:
                        out |= t.args[0]
            return out
        if isinstance(expr, ast.Call):
            return self._infer_call(expr, f, env, m)
        if isinstance(expr, ast.BinOp):
            return self.infer(expr.left, f, env, m)
        if isinstance(expr, ast.Compare) or (isinstance(expr, ast.UnaryOp) and isinstance(expr.op, ast.Not)):
            return frozenset({T("bool")})
        if isinstance(expr, ast.UnaryOp):
            return self.infer(expr.operand, f, env, m)
        if isinstance(expr, ast.Starred):
            return self.infer(expr.value, f, env, m)
        return frozenset()

    def _comp_env(self, comp, f, env, m) -> dict:
        ce = dict(env)
        for g in comp.generators:
            et = self.elem_types(self.infer(g.iter, f, ce, m), g.iter, f, ce)
            new: list = []
            self._bind_target(g.target, et, new)
            for n, t in new:
                ce[n] = t
        return ce

    def attr_types(self, c: ClassInfo, name: str) -> frozenset:
        """Declared/inferred type of attribute `name` on instances of class c."""
        ann = c.attr_annotation(name)
        if ann is not None:
            return self.ann_types(ann[0].module, ann[1])
        meth = c.find_method(name)
        if meth is not None:
            if meth.is_property:
                return self.return_types(meth)
            return frozenset({TypeRef("method", (), None)})
        out: frozenset = frozenset()
        for k in c.mro():
            for (wf, val) in k.inst_attr_vals.get(name, []):
                key = (id(val))
                if key in self._in_progress:
                    continue
                self._in_progress.add(key)
                try:
                    out |= self.infer(val, wf)
                finally:
                    self._in_progress.discard(key)
            if name in k.class_attrs and k.class_attrs[name] is not None:
                out |= self.infer(k.class_attrs[name], None, {}, k.module)
        return out

    def _infer_attr(self, expr: ast.Attribute, f, env, m) -> frozenset:
        # module attribute / class attribute through entity resolution first
        ent = None
        if attr_chain(expr) and attr_chain(expr)[0] not in env:
            ent = self.prog.resolve_expr_entity(m, expr)
        if isinstance(ent, ClassInfo):
            return frozenset({TypeRef("type", (frozenset({class_type(ent)}),))})
        if isinstance(ent, tuple) and ent[0] == "const":
            _, cm, cname = ent
            if cname in cm.const_ann:
                return self.ann_types(cm, cm.const_ann[cname])
            return self.infer(cm.constants[cname], None, {}, cm)
        if isinstance(ent, tuple) and ent[0] == "classattr":
            _, c, name = ent
            if c.has_ext_base("Enum") or c.has_ext_base("StrEnum") or c.has_ext_base("IntEnum"):
                return frozenset({class_type(c)})
            if name in c.class_attr_ann:
                return self.ann_types(c.module, c.class_attr_ann[name])
            return self.infer(c.class_attrs[name], None, {}, c.module) if c.class_attrs[name] is not None else frozenset()
        base = self.infer(expr.value, f, env, m)
        out: frozenset = frozenset()
        for t in base:
            if t.cls is not None:
                out |= self.attr_types(t.cls, expr.attr)
            elif t.name == "type" and t.args:
                for ct in t.args[0]:
                    if ct.cls is not None:
                        c = ct.cls
                        if expr.attr in c.class_attrs or expr.attr in c.class_attr_ann:
                            if c.has_ext_base("Enum") or c.has_ext_base("StrEnum"):
                                out |= {ct}
                            else:
                                out |= self.attr_types(c, expr.attr)
        return out

    def _infer_call(self, call: ast.Call, f, env, m) -> frozenset:
        fn = call.func
        # constructor / function by entity
        if isinstance(fn, ast.Name) and fn.id not in env:
            ent = self.prog.resolve_name(m, fn.id)
            if isinstance(ent, ClassInfo):
                return frozenset({class_type(ent)})
            if isinstance(ent, FuncInfo):
                return self.return_types(ent)
            if fn.id == "super":
                return frozenset({T("super")})
            if fn.id in ("list", "sorted", "reversed") and call.args:
                el = self.elem_types(self.infer(call.args[0], f, env, m))
                return frozenset({TypeRef("list", (el,))})
            if fn.id in ("set", "frozenset") and call.args:
                el = self.elem_types(self.infer(call.args[0], f, env, m))
                return frozenset({TypeRef("set", (el,))})
            if fn.id == "enumerate" and call.args:
                el = self.elem_types(self.infer(call.args[0], f, env, m))
                return frozenset({TypeRef("enumerate", (el,))})
            if fn.id in ("str", "int", "float", "bool", "len", "dict", "tuple"):
                return frozenset({T(fn.id if fn.id != "len" else "int")})
            if fn.id in ("next",) and call.args:
                return self.elem_types(self.infer(call.args[0], f, env, m))
            return frozenset()
        out: frozenset = frozenset()
        if isinstance(fn, ast.Attribute):
            ent = self.prog.resolve_expr_entity(m, fn) if (attr_chain(fn) and attr_chain(fn)[0] not in env) else None
            if isinstance(ent, ClassInfo):
                return frozenset({class_type(ent)})
            if isinstance(ent, FuncInfo):
                return self.return_types(ent)
            base = self.infer(fn.value, f, env, m)
            for t in base:
                if t.cls is not None:
                    meth = t.cls.find_method(fn.attr)
                    if meth is not None:
                        out |= self.return_types(meth)
                    else:
                        # callable attribute
                        pass
                elif t.name == "type" and t.args:
                    for ct in t.args[0]:
                        if ct.cls is not None:
                            meth = ct.cls.find_method(fn.attr)
                            if meth is not None:
                                out |= self.return_types(meth)
                elif t.name in _MAPPING and len(t.args) > 1:
                    if fn.attr in ("get", "pop", "setdefault"):
                        out |= t.args[1] | ({T("None")} if fn.attr == "get" else frozenset())
                    elif fn.attr == "values":
                        out |= {TypeRef("dict_values", (t.args[1],))}
                    elif fn.attr == "keys":
                        out |= {TypeRef("list", (t.args[0],))}
                    elif fn.attr == "items":
                        out |= {TypeRef("dict_items", (t.args[0], t.args[1]))}
                    elif fn.attr == "copy":
                        out |= {t}
                elif t.name in _CONTAINER_ELEM and t.args:
                    if fn.attr in ("pop", "get", "get_nowait", "popleft"):
                        out |= t.args[0]
                    elif fn.attr == "copy":
                        out |= {t}
        return out

    def return_types(self, fn: FuncInfo) -> frozenset:
        key = id(fn.node)
        if key in self._ret_cache:
            return self._ret_cache[key]
        if fn.node.returns is not None:
            r = self.ann_types(fn.module, fn.node.returns)
            self._ret_cache[key] = r
            return r
        if key in self._in_progress:
            return frozenset()
        self._in_progress.add(key)
        out: frozenset = frozenset()
        try:
            if fn.name == "__enter__":
                pass
            for n in walk_no_nested(fn.node):
                if isinstance(n, ast.Return) and n.value is not None:
                    out |= self.infer(n.value, fn)
        finally:
            self._in_progress.discard(key)
        self._ret_cache[key] = out
        return out

    # -- call resolution -----------------------------------------------------------------------
    def receiver_classes(self, expr: ast.AST, f: FuncInfo) -> list[ClassInfo]:
        return [t.cls for t in self.infer(expr, f) if t.cls is not None]

    def resolve_call(self, call: ast.Call, f: FuncInfo, cha: bool = True) -> list[FuncInfo]:
        """Possible callees of `call` inside function f. Methods: the definition found on the static
        receiver class plus overrides in all subclasses (class-hierarchy analysis)."""
        env = self.env(f)
        m = f.module
        fn = call.func
        out: list[FuncInfo] = []

        def add(x: FuncInfo | None):
            if x is not None and x not in out:
                out.append(x)

        def add_method(c: ClassInfo, name: str):
            add(c.find_method(name))
            if cha:
                for s in c.all_subclasses():
                    if name in s.methods:
                        add(s.methods[name])

        if isinstance(fn, ast.Name):
            if fn.id in env:
                for t in env[fn.id]:
                    if t.cls is not None:
                        add(t.cls.find_method("__call__"))
            else:
                ent = self.prog.resolve_name(m, fn.id)
                if isinstance(ent, ClassInfo):
                    add(ent.find_method("__init__"))
                    add(ent.find_method("__new__"))
                elif isinstance(ent, FuncInfo):
                    add(ent)
                # nested function in f
                for n in walk_no_nested(f.node):
                    if isinstance(n, (ast.FunctionDef, ast.AsyncFunctionDef)) and n is not f.node and n.name == fn.id:
                        add(FuncInfo(m, n, None, outer=f))
        elif isinstance(fn, ast.Attribute):
            # super().m()
            if isinstance(fn.value, ast.Call) and isinstance(fn.value.func, ast.Name) and fn.value.func.id == "super" \
                    and f.cls is not None:
                # all classes that may be `type(self)`: f.cls and subclasses -> next in their MRO
                cands = [f.cls] + (f.cls.all_subclasses() if cha else [])
                for c in cands:
                    add(c.find_method_after(fn.attr, f.cls))
                return out
            ch = attr_chain(fn)
            ent = self.prog.resolve_expr_entity(m, fn) if (ch and ch[0] not in env) else None
            if isinstance(ent, FuncInfo):
                add(ent)
            elif isinstance(ent, ClassInfo):
                add(ent.find_method("__init__"))
            else:
                for t in self.infer(fn.value, f, env):
                    if t.cls is not None:
                        add_method(t.cls, fn.attr)
                    elif t.name == "type" and t.args:
                        for ct in t.args[0]:
                            if ct.cls is not None:
                                add_method(ct.cls, fn.attr)
        if out:
            self.resolved_calls += 1
        else:
            self.unresolved_calls += 1
        return out

    def constructed_class(self, call: ast.Call, f: FuncInfo) -> ClassInfo | None:
        ent = self.prog.resolve_expr_entity(f.module, call.func)
        return ent if isinstance(ent, ClassInfo) else None


def calls_in(f: FuncInfo) -> list[ast.Call]:
    return [n for n in walk_no_nested(f.node) if isinstance(n, ast.Call)]


def call_name(call: ast.Call) -> str:
    fn = call.func
    if isinstance(fn, ast.Attribute):
        return fn.attr
    if isinstance(fn, ast.Name):
        return fn.id
    return ""
