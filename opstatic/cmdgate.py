"""The gate in front of the command executors (shared by C12 R12g and C15 R15f).

`concluded_gate(prog, res)` decides whether CommandManager._execute_command retires a request whose invocation already
has a conclusive record state (Completed / Failed / Cancelled) before either executor is reached:

  * a test whose expression is (a negation of) a call of a *conclusive-state predicate* - a method that examines the states
    recorded for the instance id it is given for all three conclusive members - on `<request>.instance_id`,
  * that dominates both executor calls, whose "concluded" outcome reaches neither, and on which every path to the exit
    passes _executing_command_done, directly or through _finalize_command (the request leaves the executing list).

Returns (ok: bool, FuncInfo of _execute_command, the dispatch nodes).
"""
from __future__ import annotations

import ast

from .model import AnchorError
from .util import cfg_of, call_attr

CMQ = "openpectus.engine.command_manager:CommandManager"
ENUM = "RuntimeRecordStateEnum"
EXECUTORS = ("_execute_internal_command", "_execute_uod_command")
# _finalize_command marks the request done on every path, also when finalize raises (C10 R10d)
RETIRES = ("_executing_command_done", "_finalize_command")


def is_conclusive_predicate(fn) -> bool:
    txt = {ast.unparse(n) for n in ast.walk(fn.node) if isinstance(n, ast.Attribute)}
    ps = [a.arg for a in fn.node.args.args if a.arg not in ("self", "cls")]
    uses_param = bool(ps) and any(isinstance(n, ast.Name) and n.id == ps[0] for n in ast.walk(fn.node))
    return uses_param and all(f"{ENUM}.{m}" in txt for m in ("Completed", "Failed", "Cancelled"))


def concluded_gate(prog, res):
    cmc = prog.cls(CMQ)
    ec = cmc.methods.get("_execute_command")
    if ec is None:
        raise AnchorError("CommandManager._execute_command missing")
    g = cfg_of(ec)
    rpar = ec.node.args.args[1].arg
    disp = [n for n in g.nodes if n.ast is not None and any(call_attr(c) in EXECUTORS for c in n.calls())]
    if len(disp) < 2:
        raise AnchorError("_execute_command: dispatch to the two executors not found")
    guards = []
    for t in g.nodes:
        if t.kind != "test":
            continue
        for c in ast.walk(t.ast):
            if isinstance(c, ast.Call) and any(isinstance(a, ast.Attribute) and isinstance(a.value, ast.Name) and a.value.id == rpar
                                               and a.attr == "instance_id" for a in c.args):
                for tgt in res.resolve_call(c, ec, cha=False):
                    if is_conclusive_predicate(tgt):
                        e_, neg = t.ast, False
                        while isinstance(e_, ast.UnaryOp) and isinstance(e_.op, ast.Not):
                            e_, neg = e_.operand, not neg
                        if e_ is c:
                            guards.append((t, "F" if neg else "T"))
    ok_ = False
    for t, lab in guards:
        reaches = g.search([(t.id, lab)], lambda n: any(n.id == d.id for d in disp), follow_exc=False)
        retires = g.path_to_exit_avoiding([(t.id, lab)], lambda n: n.ast is not None and any(
            call_attr(c) in RETIRES for c in n.calls()), follow_exc=False)
        if reaches is None and retires is None and all(g.dominates(t, d) for d in disp):
            ok_ = True
    return ok_, ec, disp


def executors_only_from_gate(prog) -> list:
    """Call sites of the executors outside _execute_command (should be empty for the gate to cover every execution)."""
    out = []
    for fn in prog.iter_functions():
        if "/test" in fn.module.path or ".test." in fn.module.name:
            continue
        if fn.name == "_execute_command":
            continue
        for c in ast.walk(fn.node):
            if isinstance(c, ast.Call) and call_attr(c) in EXECUTORS:
                out.append((fn, c))
    return out


def retire_branch_analysis(prog, res):
    """The part of CommandManager._cancel_command that handles a request for which no command instance is registered.

    Returns (f, g, marks, dones, skips) where `marks` are the nodes that record Cancelled for the request without a dominating
    `<cmd>.cancel()` (the request's command is not running: it has not started - or it has completed and was finalized earlier in
    this tick and the request is just not committed yet), `dones` the nodes that retire the request there, and `skips` the list of
    (path, outcomes) for every path from the function entry to a retire node of that part that records nothing - `outcomes` being the
    (test text, label) pairs taken on the path."""
    f = prog.func(f"{CMQ}._cancel_command")
    g = cfg_of(f)
    cn = [n for n in g.nodes if n.ast is not None and any(call_attr(c) == "cancel" and not c.args for c in n.calls())]
    marks = [n for n in g.nodes if n.ast is not None and any(call_attr(c) == "mark_cancelled" for c in n.calls())
             and not any(g.dominates(c, n) for c in cn)]
    dones = [n for n in g.nodes if n.ast is not None and any(call_attr(c) == "_executing_command_done" for c in n.calls())
             and not any(g.dominates(c, n) for c in cn)]
    skips = []
    mark_ids = {m.id for m in marks}
    cn_ids = {c.id for c in cn}
    for dn in dones:
        # all simple paths entry -> dn that avoid the marks and the running-command part (bounded DFS)
        stack = [(g.entry.id, (g.entry.id,), ())]
        found = 0
        while stack and found < 32:
            nid, path, outs = stack.pop()
            if nid == dn.id:
                skips.append(([g.nodes[i] for i in path], outs))
                found += 1
                continue
            for d, l in g.succ[nid]:
                if d in path or d in mark_ids or d in cn_ids or l == "exc":
                    continue
                nd = g.nodes[nid]
                o2 = outs + ((ast.unparse(nd.ast), l),) if nd.kind == "test" and l in ("T", "F") else outs
                stack.append((d, path + (d,), o2))
    return f, g, marks, dones, skips
