"""Tick-time kind analysis (DESIGN §4 C16, Appendix A.7).

Kinds: TICK_TIME (engine clock time of a tick), COUNTER (tick numbers and other +1 counters),
WALL (time.time()), MONO (time.monotonic()/perf_counter()), DURATION, CONST, FORWARDED (*args /
**kwargs pass-through inside an override), UNKNOWN. A value's kind is a set; a sink needs exactly
{TICK_TIME}. Interprocedural: parameter kinds are the join of the argument kinds over all resolved
call sites; attribute kinds the join over all writers; one global fix-point.
"""
from __future__ import annotations

import ast

from .model import ClassInfo, FuncInfo, Program, walk_no_nested, attr_chain
from .resolve import Resolver

TICK_TIME, COUNTER, WALL, MONO, DURATION, CONST, FORWARDED, UNKNOWN = (
    "TICK_TIME", "COUNTER", "WALL", "MONO", "DURATION", "CONST", "FORWARDED", "UNKNOWN")
K = frozenset
BOTTOM: frozenset = frozenset()


class KindAnalysis:
    def __init__(self, prog: Program, res: Resolver, seeds: dict[tuple[str, str], str],
                 tests: bool = False, config: bool = False, max_rounds: int = 8):
        self.prog, self.res = prog, res
        self.param: dict[tuple[int, str], frozenset] = {}
        self.attr: dict[tuple[str, str], frozenset] = {}
        self.ret: dict[int, frozenset] = {}
        self.funcs = list(prog.iter_functions(tests=tests, config=config))
        self.rounds = 0
        self._callees: dict[int, list[FuncInfo]] = {}
        for (qual, pname), kind in seeds.items():
            f = prog.func(qual)
            self.param[(id(f.node), pname)] = K({kind})
        self.seeded = {(id(prog.func(q).node), p) for (q, p) in seeds}
        self._locals: dict[int, dict[str, frozenset]] = {}
        for _ in range(max_rounds):
            self.rounds += 1
            if not self._round():
                break

    # -- helpers -------------------------------------------------------------------------------
    def owner(self, c: ClassInfo, attr: str) -> str:
        own = c
        for k in c.mro():
            if attr in k.inst_attr_vals or attr in k.inst_attr_ann or attr in k.class_attrs or attr in k.class_attr_ann:
                own = k
        return own.qualname

    def _join(self, table: dict, key, kinds: frozenset) -> bool:
        if not kinds:
            return False
        old = table.get(key, BOTTOM)
        new = old | kinds
        if new != old:
            table[key] = new
            return True
        return False

    def callees(self, call: ast.Call, f: FuncInfo) -> list[FuncInfo]:
        k = id(call)
        if k not in self._callees:
            self._callees[k] = self.res.resolve_call(call, f)
        return self._callees[k]

    # -- expression kinds ----------------------------------------------------------------------
    def expr_kind(self, e: ast.AST, f: FuncInfo, local: dict[str, frozenset] | None = None) -> frozenset:
        if local is None:
            local = self._locals.get(id(f.node), {})
        if isinstance(e, ast.Constant):
            return K({CONST})
        if isinstance(e, ast.Name):
            if e.id in local:
                return local[e.id]
            pk = self.param.get((id(f.node), e.id))
            if pk is not None:
                return pk
            if any(p.arg == e.id for p in f.params()):
                return BOTTOM  # parameter without known call sites (yet)
            if f.outer is not None:
                return self.expr_kind(e, f.outer)
            return K({UNKNOWN})
        if isinstance(e, ast.Attribute):
            out: frozenset = BOTTOM
            found = False
            for c in self.res.receiver_classes(e.value, f):
                found = True
                m = c.find_method(e.attr)
                if m is not None and m.is_property:
                    out |= self.ret.get(id(m.node), BOTTOM)
                else:
                    out |= self.attr.get((self.owner(c, e.attr), e.attr), BOTTOM)
            return out if found else K({UNKNOWN})
        if isinstance(e, ast.Call):
            fn = e.func
            ch = attr_chain(fn)
            if ch and ch[0] == "time" and len(ch) == 2:
                if ch[1] == "time":
                    return K({WALL})
                if ch[1] in ("monotonic", "perf_counter", "monotonic_ns", "perf_counter_ns"):
                    return K({MONO})
            if isinstance(fn, ast.Name) and fn.id in ("float", "int", "round", "abs") and e.args:
                return self.expr_kind(e.args[0], f, local)
            if isinstance(fn, ast.Name) and fn.id in ("max", "min") and e.args:
                out = BOTTOM
                for a in e.args:
                    out |= self.expr_kind(a, f, local)
                return out
            cs = self.callees(e, f)
            if cs:
                out = BOTTOM
                for c in cs:
                    out |= self.ret.get(id(c.node), BOTTOM)
                return out or K({UNKNOWN})
            return K({UNKNOWN})
        if isinstance(e, ast.BinOp):
            l, r = self.expr_kind(e.left, f, local), self.expr_kind(e.right, f, local)
            neutral = {CONST, DURATION}
            if isinstance(e.op, (ast.Add, ast.Sub)):
                if l and l <= neutral:
                    return r if r - neutral else K({DURATION}) if DURATION in (l | r) else K({CONST})
                if r and r <= neutral:
                    return l
                if isinstance(e.op, ast.Sub) and l == r and len(l) == 1:
                    return K({DURATION})
            return (l | r) or K({UNKNOWN})
        if isinstance(e, ast.IfExp):
            return self.expr_kind(e.body, f, local) | self.expr_kind(e.orelse, f, local)
        if isinstance(e, ast.BoolOp):
            out = BOTTOM
            for v in e.values:
                out |= self.expr_kind(v, f, local)
            return out
        if isinstance(e, ast.Starred):
            return K({FORWARDED})
        if isinstance(e, ast.UnaryOp):
            return self.expr_kind(e.operand, f, local)
        return K({UNKNOWN})

    # -- one propagation round -----------------------------------------------------------------
    def _round(self) -> bool:
        changed = False
        for f in self.funcs:
            local: dict[str, frozenset] = dict(self._locals.get(id(f.node), {}))
            for _ in range(2):
                for n in walk_no_nested(f.node):
                    if isinstance(n, ast.Assign) and len(n.targets) == 1 and isinstance(n.targets[0], ast.Name):
                        k = self.expr_kind(n.value, f, local)
                        if k:
                            local[n.targets[0].id] = local.get(n.targets[0].id, BOTTOM) | k
                    elif isinstance(n, ast.AnnAssign) and isinstance(n.target, ast.Name) and n.value is not None:
                        k = self.expr_kind(n.value, f, local)
                        if k:
                            local[n.target.id] = local.get(n.target.id, BOTTOM) | k
                    elif isinstance(n, ast.AugAssign) and isinstance(n.target, ast.Name):
                        if isinstance(n.value, ast.Constant) and isinstance(n.value.value, int) and isinstance(n.op, (ast.Add, ast.Sub)):
                            local[n.target.id] = local.get(n.target.id, BOTTOM) | K({COUNTER})
            if local != self._locals.get(id(f.node)):
                self._locals[id(f.node)] = local
            for n in walk_no_nested(f.node):
                # attribute writes
                tgt = val = None
                if isinstance(n, ast.Assign):
                    for t in n.targets:
                        if isinstance(t, ast.Attribute):
                            changed |= self._attr_write(t, self.expr_kind(n.value, f, local), f)
                elif isinstance(n, ast.AnnAssign) and isinstance(n.target, ast.Attribute) and n.value is not None:
                    changed |= self._attr_write(n.target, self.expr_kind(n.value, f, local), f)
                elif isinstance(n, ast.AugAssign) and isinstance(n.target, ast.Attribute):
                    if isinstance(n.value, ast.Constant) and isinstance(n.value.value, int):
                        changed |= self._attr_write(n.target, K({COUNTER}), f)
                    else:
                        changed |= self._attr_write(n.target, self.expr_kind(n.value, f, local) | self.expr_kind(n.target, f, local), f)
                elif isinstance(n, ast.Return) and n.value is not None:
                    changed |= self._join(self.ret, id(f.node), self.expr_kind(n.value, f, local))
                elif isinstance(n, ast.Call):
                    for callee in self.callees(n, f):
                        changed |= self._bind(n, f, callee, local)
        return changed

    def _attr_write(self, t: ast.Attribute, kinds: frozenset, f: FuncInfo) -> bool:
        ch = False
        if kinds == K({CONST}) and f.name == "__init__":
            return False  # constant initialisers are neutral
        for c in self.res.receiver_classes(t.value, f):
            ch |= self._join(self.attr, (self.owner(c, t.attr), t.attr), kinds)
        return ch

    def _bind(self, call: ast.Call, f: FuncInfo, callee: FuncInfo, local) -> bool:
        a = callee.node.args
        pos = list(a.posonlyargs) + list(a.args)
        bound_self = callee.cls is not None and not callee.is_static and not (
            isinstance(call.func, ast.Attribute) and self._is_class_receiver(call.func, f))
        if callee.name == "__init__" or (bound_self and pos):
            pos = pos[1:]
        ch = False
        for i, arg in enumerate(call.args):
            if isinstance(arg, ast.Starred):
                for p in pos[i:]:
                    if (id(callee.node), p.arg) not in self.seeded:
                        ch |= self._join(self.param, (id(callee.node), p.arg), K({FORWARDED}))
                break
            if i < len(pos):
                key = (id(callee.node), pos[i].arg)
                if key not in self.seeded:
                    ch |= self._join(self.param, key, self.expr_kind(arg, f, local))
        names = {p.arg for p in pos} | {p.arg for p in a.kwonlyargs}
        for kw in call.keywords:
            if kw.arg is None:
                continue
            if kw.arg in names:
                key = (id(callee.node), kw.arg)
                if key not in self.seeded:
                    ch |= self._join(self.param, key, self.expr_kind(kw.value, f, local))
        return ch

    def _is_class_receiver(self, fn: ast.Attribute, f: FuncInfo) -> bool:
        ts = self.res.infer(fn.value, f)
        return bool(ts) and all(t.name == "type" for t in ts)
