"""opstatic - repository-specific static analysis of Open-Pectus (see /verif/DESIGN.md)."""
