"""setup_cmd: verifies the interpreter can parse /repo and that every registered rule module imports."""
import importlib
import os
import sys


def main() -> int:
    if sys.version_info < (3, 12):
        print("opstatic needs CPython >= 3.12 (/venv/bin/python): the repository uses 3.12-only syntax")
        return 1
    from .model import Program
    prog = Program()
    if prog.parse_errors:
        print("parse errors:", prog.parse_errors)
        return 1
    rules = sorted(f[:-3] for f in os.listdir(os.path.join(os.path.dirname(__file__), "rules"))
                   if f.startswith("C") and f.endswith(".py"))
    for r in rules:
        importlib.import_module(f"opstatic.rules.{r}")
    print(f"opstatic ok: {len(prog.modules)} modules parsed, {len(rules)} rule modules importable")
    return 0


if __name__ == "__main__":
    sys.exit(main())
