"""CLI: /venv/bin/python -m opstatic.run Cxx [--tier quick|thorough] [--replay file]

exit 0 = all rule instances held (or are listed known findings, printed as KNOWN-FINDING lines)
exit 1 = at least one VIOLATION not in known_findings.json
exit 2 = ANALYSIS-ERROR (anchor vanished / shape not understood / instance floor not met)
"""
from __future__ import annotations

import argparse
import importlib
import json
import os
import sys
import time
import traceback


def main(argv=None) -> int:
    ap = argparse.ArgumentParser()
    ap.add_argument("prop")
    ap.add_argument("--tier", default=os.environ.get("VERIF_TIER", "quick"), choices=["quick", "thorough"])
    ap.add_argument("--replay", default=None)
    ap.add_argument("--repo", default=None)
    ap.add_argument("--no-evidence", action="store_true")
    ap.add_argument("--json", action="store_true", help="print findings as json (used by the self-test)")
    args = ap.parse_args(argv)
    seed = int(os.environ.get("VERIF_SEED", "0") or 0)
    t0 = time.time()
    try:
        from . import model, report
        from .resolve import Resolver
        if args.repo:
            model.REPO = args.repo
        prog = model.Program(args.repo)
        if prog.parse_errors:
            # a file of the package that does not parse cannot be analysed: fail closed
            raise model.AnchorError("unparseable source: " + "; ".join(prog.parse_errors))
        res = Resolver(prog)
        replay = None
        if args.replay:
            with open(args.replay, encoding="utf-8") as f:
                replay = json.load(f)
        ctx = report.Context(args.prop, args.tier, prog, res, replay)
        mod = importlib.import_module(f"opstatic.rules.{args.prop}")
        mod.run(ctx)
        findings = ctx.findings
        if replay is not None:
            findings = [fd for fd in findings if fd.rule == replay.get("rule") and fd.function == replay.get("function")
                        and fd.construct == replay.get("construct")]
        known = report.load_known()
        new, hits = [], []
        for fd in findings:
            k = report.match_known(fd, known)
            if k is not None:
                hits.append((fd, k))
            else:
                new.append(fd)
        ctx.check_floors(bool(new))
        for ff in ctx.floor_failures:
            print(f"NOTE: {ff}")
        audit = None
        if args.tier == "thorough" and replay is None and not args.repo:
            # the audits never decide the exit code: it is decided by the rules on the real tree only
            audit = {}
            try:
                from .selftest import run_audit
                audit["sensitivity"] = run_audit([args.prop])
            except Exception as ex:
                audit["sensitivity"] = {"error": f"{type(ex).__name__}: {ex}"}
            try:
                from .selftest import run_seeds
                audit["seeded_changes"] = run_seeds([args.prop])
                ss = audit["seeded_changes"]
                if ss["seeds_total"]:
                    print(f"seeded changes: detected {ss['seeds_detected']}/{ss['seeds_total']}, skipped {ss['seeds_skipped']}")
            except Exception as ex:
                audit["seeded_changes"] = {"error": f"{type(ex).__name__}: {ex}"}
            if hasattr(mod, "audit"):
                try:
                    audit["deep"] = mod.audit(ctx)
                except Exception as ex:
                    audit["deep"] = {"error": f"{type(ex).__name__}: {ex}"}
            sa = audit.get("sensitivity", {})
            if "mutants_total" in sa:
                print(f"sensitivity audit: mutants killed {sa['mutants_killed']}/{sa['mutants_total']}, equivalents silent "
                      f"{sa['equivalents_silent']}/{sa['equivalents_total']}, skipped {sa['skipped']} ({sa['wall_s']}s)")
        if args.json:
            print(json.dumps([dict(fd.key(), file=fd.file, line=fd.line, message=fd.message, known=bool(report.match_known(fd, known)))
                              for fd in findings]))
        for fd, k in hits:
            print(f"KNOWN-FINDING: property={fd.prop} {fd.rule} {fd.function} :: {fd.construct} -- {k.get('what', fd.message)}")
        n = 0
        for fd in new:
            n += 1
            print(fd.describe())
            rp = report.write_replay(fd, n) if not args.no_evidence and not args.repo else "-"
            print(f"VIOLATION property={fd.prop} replay={rp}")
        wall = time.time() - t0
        if not args.no_evidence and replay is None and not args.repo:
            expl = getattr(mod, "EXPLANATION", mod.__doc__ or "")
            report.write_evidence(ctx, wall, seed, new, hits, " ".join(expl.split()), audit)
        rules = ", ".join(f"{r}:{v['held']}/{v['instances']}" for r, v in sorted(ctx.rules.items()))
        print(f"{args.prop} tier={args.tier} rules[{rules}] obligations={ctx.obligations} discharged={ctx.discharged} "
              f"functions={len(ctx.functions_analysed)} known={len(hits)} new={len(new)} wall={wall:.2f}s")
        return 1 if new else 0
    except Exception as ex:
        from .model import AnchorError
        kind = "anchor" if isinstance(ex, AnchorError) else "internal"
        print(f"ANALYSIS-ERROR property={args.prop} ({kind}) {type(ex).__name__}: {ex}")
        if not isinstance(ex, AnchorError):
            traceback.print_exc()
        return 2


if __name__ == "__main__":
    sys.exit(main())
