"""Tables from which tools/gen_manifest.py writes MANIFEST.json.

A property is claimed iff its rule module opstatic/rules/<id>.py exists; otherwise it is listed
under not_applicable with the reason given here (design-level NA) or 'rule not built'."""
import os

_HERE = os.path.dirname(os.path.abspath(__file__))

NOTES = ("Static analysis only: every check parses /repo's working tree with CPython 3.12 `ast` (run with "
         "/venv/bin/python; python3/python3-vt are 3.11 and cannot parse two repo files) and decides repository-specific "
         "structural rules (see DESIGN.md). Exit 0 = all rule instances held or are open entries of known_findings.json "
         "(printed as KNOWN-FINDING); exit 1 = VIOLATION; exit 2 = ANALYSIS-ERROR (anchor vanished / instance floor not "
         "met) - never a silent pass. Each claimed check decides named necessary structural clauses of its property, "
         "not the full runtime behaviour; the clauses out of reach are listed per property in DESIGN.md §4/§5.")

# id -> (technique, level text, level note)
TABLE = {
    "C37": ("insert/remove pairing (kill rule on CFG) + ownership of the map",
            "All paths of FromFrontend.on_ws_disconnect are checked to remove the disconnecting subscriber's "
            "dead-man-switch entry, the other-connection test is checked to exclude that entry, the last-connection "
            "path is checked to pop the user from every engine, and the map's writers are enumerated. This settles the "
            "pairing for every connect/disconnect history, which is the part of the property tests cannot enumerate.",
            "Decides the pairing structure in aggregator.py; assumes the pub/sub library invokes the subscribe and "
            "disconnect callbacks once per connection; does not decide register/unregister REST behaviour. (R37e) the removal loop does not suspend while iterating the live engine map. (R37f) the recorded user id is the whole topic remainder after 'dead_man_switch/'; (R37g) the acquire site accumulates every user of a connection; (R37h) registration without a live connection is an open known finding."),
    "C30": ("plot-log / recent-run pairing: must-pass-through and kill queries on CFGs, who-may-call",
            "Every path to create_plot_log in run_started must have assigned fresh run data; every store_recent_run in "
            "run_stopped is under has_run() and followed on all paths by reset_run(); callers of both repository methods "
            "are enumerated. Holds for every sequence of duplicated/resent notifications because the rule covers all "
            "paths of the two handlers.",
            "Decides handler structure only; database uniqueness constraints, message ordering and exceptions from the "
            "database layer are outside (exception edges are followed for the reset rule, not for the create rule). (R30f) the run id of the current run data is never rewritten. (R30g) run_started looks the run id up among the stored runs before opening a run; (R30h) a stop overtaking its start is an open known finding."),
    "C31": ("async check-then-act atomicity rule (await between check and write must be covered by a shared asyncio lock)",
            "On the CFG of the save coroutine the version check, every await and the write of the new method are located; "
            "an await between check and write is accepted only inside an `async with` on a lock object that outlives the "
            "call (lexically or held by every caller). Also: rpc and write only under version equality, one +1 bump, "
            "single writer of EngineData.method. This covers every interleaving of concurrent saves because asyncio can "
            "only switch coroutines at the awaits the rule enumerates.",
            "Assumes cooperative asyncio scheduling on one loop (switch points = awaits) and that asyncio.Lock is correct; "
            "does not decide what the engine does with the method. A critical section handed to asyncio.shield/create_task/ensure_future is not covered by the caller's lock. (R31f) the method version is taken over from the engine together with the lines."),
    "C38": ("string-alphabet injectivity analysis of the id encoder + guard dominance",
            "The return expression of create_engine_id is decomposed into encoded parts and separators and compared "
            "with the output alphabet of urllib.parse.quote; registration side effects and success replies must be "
            "dominated by the false edge of has_connected_engine_id; the dispatcher must refuse/release channels. "
            "Injectivity is a for-all-pairs statement that only an alphabet argument (not sampling) settles.",
            "Trusted table: quote(s, safe) emits only unreserved characters, '%' and `safe`. The current tree violates "
            "R38a (listed as known finding). Does not decide uniqueness of the names engines report. (R38d) every exit of the connect handshake has recorded or closed the channel; (R38e) a registration reserves nothing until the websocket's id handshake ends - open known finding."),
    "C28": ("must-call / must-precede queries on CFGs of the register, disconnect, shutdown and persist handlers",
            "Every path of register_engine_data restores a stored active run (same run id, contributors); disconnect "
            "stores the engine before dropping it; shutdown stores all engines and is on the lifespan exit path; the "
            "stored run fields follow has_run(); tag data is recorded under run_data.run_id. Necessary structure for "
            "continuing a run across reconnects, for all paths rather than the one scenario the suite plays.",
            "Decides structure only: crash points without shutdown, database contents and message arrival order after the "
            "reconnect are outside static reach. (R28f) the recent-engine row is written whenever the active run changes; (R28g) every tag-update message carries the runner's run id. (R28h) pending tag values are flushed before the engine data is dropped (disconnect, shutdown); (R28i) a crash between the two commits of run_stopped stores the run twice - open known finding."),
    "C16": ("interprocedural kind (dimension/clock) analysis of every time argument that reaches a tag writer",
            "A kind lattice {TICK_TIME, COUNTER, WALL, MONO, DURATION, CONST, UNKNOWN} is propagated from Engine.tick's "
            "tick_time parameter through parameters, attributes and returns (global fix-point over resolved call sites); "
            "every call of Tag.set_value/set_value_and_unit/simulate_value(_and_unit) and every write of <tag>.tick_time "
            "in non-test, non-configuration code must receive exactly TICK_TIME. This decides provenance for all programs "
            "and schedules - a type checker cannot (int is assignable to float) and tests only see a few tags.",
            "Seed assumption: Engine.tick is called with the engine clock time of the tick. Wall-clock stamping sites "
            "that need an API change to repair are open known findings. User UOD code is out of scope. A time argument carried in a generator local/parameter across a yield is stale and is reported. (R16d, four known findings) every write of a reported tag field is accompanied by a stamp. (R16b) the report builder writes no times (known finding: to_model_tag)."),
    "C19": ("check-then-use contradiction rule + must-report rule on CFGs of all analyzer visitors",
            "For every branch on <collection>.has(name) the missing edge is followed on the CFG: it may never reach "
            "get()/[] of the same name (which raises) and must pass an ERROR AnalyzerItem before the exit; lookups need a "
            "dominating blank-name guard; AnalyzerItem calls never pass both length and end; lint has a catch-all. "
            "Covers every method text and tag/command set because the rule is about all paths of the visitors.",
            "Decides the lookup/report discipline of analyzer.py; exceptions raised inside pint or by validators of "
            "UOD-defined commands are outside; one justified site is listed in the rule with its reason. Module-level helpers of the analyzer modules are audited like methods (R19f). A justified lookup site is bound to the sources of its key (every definition of the key local is one the recorded reason covers). (R19g) escape audit of every analyzer method; (R19h) the merged command/tag definitions go into a duplicate-tolerant collection."),
    "C23": ("finite abstract interpretation: 5-state recovery machine extracted from the source vs. the documented table",
            "ErrorRecoveryDecorator's methods are interpreted over the domain {self.state} x {Connection Status written} "
            "with hardware outcomes and time comparisons nondeterministic; the extracted transition edges must equal the "
            "seven documented ones (sentences re-checked in docs/src/Error Recovery.rst), Connection Status must agree "
            "with the state at every exit of every entry method from every state, Issue/Reconnect must mask and "
            "Disconnected/Error must raise, and last-known-good values are written only on successful reads. Exhaustive "
            "over states and paths, hence over all fault sequences, for the abstracted machine.",
            "Abstraction: only self.state/status writes and guards are interpreted; timeouts are nondeterministic "
            "booleans (their arithmetic is not decided); logging calls are assumed not to raise. R23d also enumerates every mutation or removal of last_known_good_reads outside the success path (a cleared cache makes a masked read return None). (R23e) every transition into OK restarts the Issue clock; (R23f) an empty batch is not a success."),
    "C24": ("kill rule for superseded pending writes + flush/ownership/filter-completeness rules on CFGs",
            "On every path after a successful decorated write the pending entries of the written registers must be "
            "removed (directly or through the verified summary of _write_pending_values whose state guard is shown true "
            "by abstract interpretation); flushing happens only in state OK after a successful write; buffering always "
            "clears last_success_writes; failure paths store the newest value; the unchanged-value filter may drop a "
            "value only on an edge that compared it equal. These are the invariants that make 'newest commanded value "
            "wins' hold for every fault sequence.",
            "Decides the buffering mechanism of hardware_recovery.py; register contents and the concrete hardware layer "
            "are outside."),
    "C36": ("who-may-write (ownership) rule for reported tag state + must-call checks along the notification chain",
            "Every assignment to value/simulated_value/simulated of any Tag subclass outside constructors must be followed "
            "on all paths by notify_listeners; the chain tag -> collection -> engine listener -> queue -> message builder "
            "is checked link by link (registration, draining before clearing, de-duplication by name, latest value read "
            "at collection time, snapshot covers _iter_all_tags).",
            "Decides structure; the interleaving between the engine thread and the reporter thread is outside; tags "
            "defined in user UOD modules are outside. (R36d) every dequeued tag update reaches the report. (R36e) nothing changes a tag after the tick's last collection; (R36f) a conversion error of one tag cannot drop the others."),
    "C32": ("route x sink coverage: dominance of every unit/run data access by a verified role-check helper, call-graph reach for the LSP plugin",
            "All 41 routes of the included routers are enumerated from the decorators; every call that reads or commands "
            "unit/run data (directly, through callees, or through the pylsp hook functions for the LSP websocket) must be "
            "dominated by a helper that is itself verified to raise unless has_access(obj, user_roles), called with the "
            "route's UserRolesValue and the same id; list endpoints must filter each element; has_access must have the "
            "documented shape. This is a for-all-endpoints statement that a test per endpoint cannot close.",
            "Identity/token validation (jwt) and FastAPI's dependency injection are trusted; the engine-facing routes and "
            "the pub/sub notification channel are out of scope. The two LSP endpoints violate the rule today (open known findings). (R32e) a unit whose required roles have not been reported yet is not open."),
    "C26": ("type-level analysis of the annotation closure of all protocol message classes + structural checks of the envelope",
            "Every MessageBase subclass in the three protocol namespaces and every pydantic model reachable through field "
            "annotations (195 fields) is checked for JSON-lossy types (non-string dict keys, bytes, Decimal, Any ...); "
            "serialize/deserialize are checked for the _type/_ns envelope, the fixed namespace list, rejection of unknown "
            "names and the single catch-all that raises the protocol error. A type-level fact holds for all field values.",
            "Trusts pydantic's model_dump/validation for JSON-safe types; does not decide NaN/precision or value equality. (R26c) no model in the message closure customises its own dump/validate (serializer/validator hooks, model_dump override). (R26d) every serialize() result must be encoded by json.dumps - four dict hand-overs to foreign encoders are open known findings (inf/nan -> null, surrogates); (R26e) no set in a python-mode dump (known: UodInfoMsg.required_roles)."),
    "C33": ("sibling-agreement rule over the three user-id selections + exclusion dominance in publish_message",
            "Each selection comprehension must contain the has_access conjunct with the subscriber's recorded roles, test "
            "one distinct NotificationScope member (together covering the enum) with its scope-specific conjunct; the "
            "result must be fetched for exactly these selections by an IN query; preferences come from the topic-filtered "
            "query; the new contributor's own subscriptions are skipped before posting.",
            "Decides selection structure only; database contents, duplicate subscription rows and push delivery are outside. (R33d) one row per browser subscription (look-up before insert); (R33e) stored contributors are those of the stored run only and are cleared without a run. (R33f) at most one post per endpoint and notification."),
    "C35": ("no-drop path rule on the aggregation loop",
            "Every path through the loop body of AggregatedErrorLog.aggregate_with must append the entry, merge it "
            "(count +1 and take its time) or be the equal-time redelivery branch; merging is restricted to equal message "
            "and severity; fresh entries start at 1 and become `latest`.",
            "The earlier-time branch violates the rule today (open known finding). Does not decide what the engine logs. (R35c) from_entry copies message, time and severity unmodified."),
    "C06": ("finite abstract interpretation (explicit-state) of the run-state machine extracted from the command classes, Engine.tick and the gating function",
            "The transfer functions of the seven control commands (segmented at `yield`), their cancel overrides, Engine.tick "
            "and _validate_control_command are interpreted from their CFGs over {started, paused, holding, stopping} x System "
            "State x Run Id x in-flight commands x pending user request; every sequence of user and method commands is "
            "explored to a fix-point (finite domain, so all lengths), checking the state invariant at every tick boundary "
            "and the gating table on every reachable state. Tests play a handful of sequences; this covers all of them for "
            "the abstracted machine.",
            "Scheduling model read off CommandManager (newest request first, one generator step per tick, commands orphaned "
            "by _stop_interpreter); calls outside the domain have only the tabulated effects (evidence.call_model); timed waits "
            "are nondeterministic. set_error_state from a stopped engine breaks the invariant but is outside the property's "
            "quantifier (recorded by the thorough tier as observation). The execution order of the commands due in one tick (newest first / appended / stable sort by a name predicate) is extracted from CommandManager.execute_commands, not assumed; an unrecognised reordering exits 2. Gating written as a module-level lookup table keyed by command is evaluated as well; (R06d) the invariant is also explored with two user requests per tick gap. Bound: union of the coarse scheduler with one request per tick gap and the exact scheduler of execute_commands with two (quick) / three (thorough) requests per gap. (R06a strict) a Restart that has begun keeps System State Restarting; (R06e) with faults explored, no run => Stopped and no pause/hold flag. (R06f) every run start (Start, Restart's last segment) is guarded by `not _runstate_started`."),
    "C07": ("abstract interpretation of update_calculated_tags over System State + sibling rule and model check for the Block/Scope Time gate + run-start sibling agreement",
            "Which System States let Process/Run Time advance is computed by interpreting update_calculated_tags for every "
            "state; the Block/Scope Time gate table is extracted from tags_impl and every site that leaves Running must emit a "
            "closing signal (confirmed on the extracted run-state machine with faults); Start and the last segment of "
            "Restart must perform the same resets.",
            "Numeric increments and threshold timing are not decided. Hold and the error pause emit no signal today (open known findings). Also decided (R07d): the emit_* methods the clock gate depends on reach their fan-out loop on every path (delivery is unconditional), which is the call model the machine uses. R07a also reports every write of a run clock other than the per-tick increment and the reset at run start. Bound: union of the coarse scheduler with one request per tick gap and the exact scheduler of execute_commands with two (quick) / three (thorough) requests per gap. (R07e) clock tags clear their pause flag when a run starts. (R07e) per-run containers of the clock tags are cleared at run start; (R07b) the clocks also advance while Restarting (known finding)."),
    "C08": ("reachability/ordering on the extracted run-state machine with ghost variables for output tags and hardware + structural pause-site rule",
            "Ghost variables follow whether the output tags hold live or safe values and what was last written to the "
            "hardware; engine start, every completing Stop and every pause state are checked; every pause site must apply the "
            "safe state; Engine.tick evaluated with paused=True must not reach UOD command execution; hardware writes in engine "
            "code must be guarded by _runstate_started.",
            "What UOD callbacks compute is not modelled (any executing UOD command may write any output). Three design-level "
            "violations are open known findings (dead start-up write, error pause without safe state, UOD commands run while paused). Bound: union of the coarse scheduler with one request per tick gap and the exact scheduler of execute_commands with two (quick) / three (thorough) requests per gap. (R08b) Stop's safe write, succeeding and failing (the latter a known finding); (R08e) unsafe no-run/paused states classified by cause; (R08g) no tick takes the hardware from safe-and-paused to live while a Stop/Restart is in progress. (R08h, known finding) the safe value is written to the real slot while the hardware write reads the simulated one."),
    "C09": ("captured-state kill rule (structural, per generator segment) + model check of restores on the extracted run-state machine",
            "Every function that ends a pause or crosses a run boundary must clear or consume Engine._prev_state within the "
            "same generator segment; Pause must not capture over an outstanding capture; writers of _prev_state are "
            "enumerated; on the extracted machine (with error pauses) no reachable Unpause restores a capture from an "
            "earlier run, an already-undone pause, or safe values captured during a pause.",
            "Decides that a capture cannot outlive its pause; equality of the restored tag values is value-level and not decided. Also decided (R09e): _apply_safe_state captures the pre-value of every safe-valued write register on every loop path, before overwriting it, and returns exactly that collection; _apply_state restores every captured tag unconditionally (the call model the machine uses). The machine also reports a pause that ends with the applied safe values left in place (nothing restored). Bound: union of the coarse scheduler with one request per tick gap and the exact scheduler of execute_commands with two (quick) / three (thorough) requests per gap. (R09f) the capture reads the tag's real value (the slot the safe state overwrites), not the simulation mask; (R09g) the capture is cleared before it is applied, or in a finally."),
    "C10": ("ordered must-call sets on the CFGs of Stop/Restart + class-hierarchy walk of on_stop overrides",
            "Stop._run and Restart._run must call cancel_all_commands(self.name) -> tracking.disable -> emit_on_stop -> "
            "clear_run_id -> _stop_interpreter in dominance order (Restart then, after a yield, set_run_id -> enable -> "
            "emit_on_start); the cancel chain down to _finalize_command is checked link by link; every Tag subclass "
            "overriding on_stop must reach super().on_stop() on all paths (that is what ends simulations).",
            "Decides the clean-up structure; completeness of the run log at every stop point and UOD callback behaviour are not decided. Also decided (R10d): in _execute_uod_command every path from the acquisition of the instance to a raising exit finalizes it, and _finalize_command marks the request done on every path - Stop can only cancel what is still an executing request. (R10e): cancel_all_commands is called in the generator segment that ends the run, not only before a wait. (R10f) a command's cancellation is recorded whatever its node says; (R10g) Stop finalizes instances without a request; (R10h) the concluded-invocation gate finalizes the command its request started. (R10i) a request the cancel pass retires without a state has concluded or is executed by another request. (R10j) the run-end sweep concludes uod command invocations that were created but never requested."),
    "C11": ("lifecycle typestate rules on the CFG of CommandManager._execute_uod_command",
            "Both cancel loops must dominate instance creation and every execute(); creation only without an existing "
            "instance; initialize only when not initialised and before execute; finalize only through guarded sites; from "
            "create_command every path to any exit (normal or raising, under the typestate of a fresh instance) must pass "
            "execute or a finalisation; finalize must dispose.",
            "Decides the lifecycle structure of the command manager; exceptions thrown by UOD callbacks during finalisation are not decided. R11a classifies cancel sites by their guard (same name / both names in one declared overlap list, directly or through a relation on the uod whose construction must accumulate over the declared lists). Also decided (R11e): every instance handed to the unguarded finalize() of _finalize_command comes from a lookup in (or creation into) the registries finalize() removes instances from, unless the finalisation is idempotent. (R11d) the dispose is reached even if the finalize callback raises; (R11f) _cancel_command finalizes on every path from cancel() (exceptional ones included) and retires a uod request cancelled before it started."),
    "C12": ("check-before-mutate dominance + sibling agreement of cancel/force handlers + flag-consultation audit of interpreter waiting loops",
            "Record states Cancelled/Forced must not be reachable from a refused node.cancel()/force(); no caller may "
            "disable that check; flags are set only when offered; cancel_instruction and force_instruction must both "
            "reject unknown ids and track known ones; every waiting loop of a cancellable/forcible instruction must read "
            "the flag (directly or via its helper); Pause/Hold.cancel must run the inverse command.",
            "Decides the reject-or-apply structure; tick-exact timing of the effect is not decided. Also decided (R12d): an accepted cancel of a command instance finalizes it before returning. (R12e): on the request-state model shared with C04 a cancelled Watch/Alarm never invokes its body and a forced one never returns to the same yield unchanged. (R12f) cancel_instruction/force_instruction refuse a concluded invocation before any change; (R12g) _execute_command retires a request whose invocation has concluded instead of executing it. (R12h) requests act on the invocation they name; (R12i) one instance id per Watch/Alarm invocation; (R12j) an aborted waiting Watch/Alarm is concluded. R12e also reports an accepted force that is dropped (the generator ends and no continuation reaches the body)."),
    "C13": ("error-discipline rules on Engine.tick (handler completeness, must-call), failure-marking rules on the interpreter "
            "and command manager, and a class-hierarchy-resolved exception-escape audit of the unprotected part of the tick",
            "The interpreter tick and the command tick must sit in try bodies with a catch-all whose every handler reaches "
            "set_error_state on all paths; set_error_state must write Method Status=Error, System State=Paused and the pause flag "
            "on all paths and end in the exception-swallowing listener fan-out (every EventEmitter.emit_* loop is checked); the "
            "visitor wrapper must mark the node failed and record the error, PInterpreter.tick must raise an InterpretationError "
            "whenever an error is recorded, command failures must be marked failed and re-raised; every explicit raise/assert "
            "that can leave a call in the unprotected part of Engine.tick (CHA-resolved, depth 4/6) must be a justified "
            "(exception, function) pair; Stop is not refused while Paused and a successful merge clears the error state. These "
            "hold for every method text and schedule because they are facts about all paths of the tick.",
            "Decides the error discipline, not the absence of exceptions from partial builtins on runtime values, user UOD "
            "callbacks, or RecursionError on deep programs; hardware-layer implementations are exempt by the property's "
            "assumption (hardware answers in its declared domain). The escape audit also counts next()/max()/min() without a fallback as raise sites (StopIteration/ValueError). (R13f) bookkeeping reads real values; (R13g, known finding) a timed Pause resumes an errored run; (R13h, known finding) mark_failed early exit; (R13i) a failed start leaves no instance."),
    "C15": ("ownership/append-only rules for record states and their clock, must-pass-through for the sort, id ownership dataflow, "
            "and a finite path enumeration of the run-log state loop per record-state enum member",
            "Record states are appended only by RuntimeRecord._add_state, called only from Tracking with Tracking's tick "
            "time (written only by Tracking.tick from its parameter); item.start comes from the first state and item.end from "
            "a later state of the same invocation with the raising order check dominating the loop; every return path of "
            "get_runlog sorts by start; item ids are instance ids that are minted once (uuid4), grouped by id and owned by the "
            "record they are added to; for each of the 10 record-state enum members all paths of the loop body are enumerated "
            "with the enum-dependent tests decided: conclusive states set the matching item state, the end time, "
            "cancellable=forcible=False last, and append the item; the exclusion table equals the property's list; every "
            "visitor pairs node.completed = True with tracking.mark_completed. All are facts over every record history.",
            "Decides these structural clauses; producibility for arbitrary runtime state orders (the raise sites of the "
            "generator) and monotonicity of the clock itself are not decided. R15f additionally decides one producibility clause: a command request never receives two different conclusive record states (which makes the generator raise for the rest of the run) - violated on the pinned tree, repaired (fixed entry). (R15f) every cancellation finalizes at once, so no cancelled command reaches a second conclusive mark; (R15g) Tracking.mark_* called with a request/command attribute the state to that request's own invocation. (R15h) last_instance_id is the most recently created invocation. (R15j) Cancelled is recorded for a request without a command instance only if its invocation has not concluded. (R15k) choke point: _add_state appends only after a scan that returns on a conclusive state of the same invocation - decides 'no state behind a conclusive one' for every caller; (R15l) Watch and Alarm visitors agree on cancellation; (R15m) handlers are removed before a body is reset; (R15a) the state clock is monotone. (R15n) a replacing interpreter inherits the tracking state at every construction site."),
    "C34": ("must-precede (sort before use across two cooperating functions), sibling agreement of column iteration, "
            "one-cell-per-entry path count, loop-shape and guard-dominance rules on the sample-and-hold cursor",
            "The row writer's cursor algorithm needs sorted values (established as a side effect of the header writer: "
            "checked as must-precede in generate_csv_string), ascending de-duplicated row times over all values, the same "
            "entry iteration in header and rows with exactly one cell per entry on every path, an advance that is a loop "
            "(latest value at or before the row time even when several values share or precede it) and a cell taken from "
            "the head only under head.tick_time <= row time (empty cell before a tag's first value). Each is necessary for "
            "sample-and-hold on every plot log; R34d/R34e were violated by the pinned tree and are repaired (fixed entry).",
            "Decides these structural clauses of csv_generator.py, not the emitted text for concrete plot logs (value-level)."),
    "C29": ("watermark discipline: who-may-call, guard dominance of the throttle condition, dataflow shape of the selection "
            "filter and of the stamp, write-after-store pairing and ownership of the watermark",
            "Plot-log values are stored from exactly one function; the store is dominated by has_run() and a throttle "
            "condition comparing (max current tick time - watermark) with the data-log interval; the persisted list is a "
            "comprehension of copies filtered strictly newer than the same watermark; all of them are stamped with the max of "
            "their own tick times before the store; every path after the store moves the watermark to that stamp and nothing "
            "else writes it; upsert overwrites value and time together. These give strictly increasing recorded times, one "
            "write per interval and recorded-time >= reported-time for every message stream, because they hold on all paths.",
            "Decides the watermark discipline, not numeric outcomes for concrete streams; database behaviour is outside. "
            "Observation recorded in the rule text: a run restored after a reconnect restarts with an empty watermark. (R29g) a restored run takes its watermark from the stored rows."),
    "C25": ("sibling agreement of the routing key across read/write/read_batch/write_batch and dataflow pairing rules "
            "(fresh per-call grouping, exactly-one-group path count, zip/list identity, parameter-order result)",
            "All four methods route a register by the same expression; the batch methods group into a dict created in the call, "
            "every register joins exactly one group in input order on every path, each group is sent to its own key, read results "
            "are zipped with the very list that was passed and returned as a comprehension over the parameter, write values are "
            "recorded per register from the positional pairing and handed to a layer as a comprehension over the register list "
            "passed with them, in signature order. These are necessary for transparency for every assignment of registers to "
            "layers and every order.",
            "Decides the routing/pairing structure (accepted idioms: if/else grouping, setdefault, defaultdict(list)); concrete "
            "values and behaviour of the underlying layers are outside. A per-layer grouping that can come from a stored attribute (kept from an earlier batch) is reported. (R25f) a batch parameter walked more than once is materialised first (Iterable inputs)."),
    "C01": ("state-carriage completeness, self-lookup rule, origin-token (alias) propagation and validate-before-commit dominance",
            "Every runtime attribute the interpreter layer writes on AST nodes must be carried by extract_state/apply_state of "
            "its declaring class; lookups of a node id that may be the receiver's own must pass include_self=True; symbolic "
            "origin tokens show whether MethodManager._program is the program the installed interpreter runs at each exit; all "
            "commits in merge_method must be dominated by the validation that rejects edits of started lines. These are "
            "necessary conditions for 'continues as if loaded from the start' that hold for every edit history.",
            "Equality of an edited run with a fresh run is out of static reach. R01b and R01c are violated today (the hot-swap "
            "visitor never finds the root; merge installs a state-less program): open known findings, not repairable without "
            "breaking baseline tests that depend on the re-execution. Also decided (R01e): the started/executed ids that feed the lock set are collected over a complete traversal of the program (opstatic/traversal.py: no class test decides membership, with the call's constant arguments bound), and extract/apply_tree_state visit every node. (R01f) a removed started/executed line is rejected; (R01g) the started-macro guard compares the instruction name."),
    "C02": ("dispatch-table exhaustiveness + dominance checks in the child iteration and the generic visit",
            "Every node class the parser can emit has a visit_<Class> on PInterpreter's MRO, every interpreter command and "
            "engine command name has a handler/class; child_index is incremented once, after the child's generator; completed "
            "nodes are never dispatched; started is set only after the threshold wait; trailing blank/comment lines are never passed.",
            "Exactly-once and ordering for arbitrary nestings and timings are runtime properties and not decided. The blank/comment rule follows `yield from self.<helper>(node)` delegation and has an instance floor (it once passed vacuously on a refactoring). Also decided (R02c): every normal end of a macro invocation increments the finished counter that guards the body reset, and the reset is recursive. (R02c) the finished counter is incremented in a finally around the body visit (abandoned invocations count); (R02d) every interpreter command completes on every normal path. (R02e) only the Call macro node that started an invocation continues it (owner attribute, waiting loop, carried state). (R02f) the default of the last-non-whitespace line lies below the first line number."),
    "C03": ("constant-table agreement (duration units/multipliers) and data-flow orientation of the threshold comparison",
            "The unit list of the duration regexes, the units and folded multipliers of get_duration_end and the groups used by "
            "Wait/Pause/Hold must agree; the threshold comparison must be '<'(scope clock, node.threshold) with the clock "
            "selected by the Block tag and the provider's (main, block) tuple order consistent end to end.",
            "The timing clauses (no later than the first tick, one tick interval) relate two runtime clocks and are not decided; "
            "an unrecognised rewrite of the anchors yields exit 2, never a violation. Built as role-based dataflow (no local-name matching); a threshold operand that comes from a helper memoised under an incomplete key is a violation, any other helper exits 2. Also decided (R03c): the start operand of Wait / timed Pause / timed Hold has the waiting loop's clock as its only source (helper returns followed) and the node's reset clears it. (R03d) an activated Watch/Alarm scope is ended when its handler is aborted with its block."),
    "C04": ("dominance / post-dominance rules on the Watch and Alarm visitors and on the block-end sites",
            "The body invocation is reachable only through the activation loop's exit; activation is written only under forced "
            "or a true condition and never for a cancelled node; a cancelled Watch leaves the wait loop before trying to "
            "activate; Watch completion and the Alarm re-arm sequence post-dominate the body; every block_ended = True is "
            "followed by _abort_block_interrupts on all paths.",
            "Tick-exact interleavings of condition, cancel, force and End block are not decided. Also decided (R04d): every self.visit(child) in _visit_children is dominated by the un-weakened false outcome of _is_in_ended_block(child). Also decided (R04e): on the request-state model of Watch/Alarm (opstatic/condnode.py: boolean request/activation attributes, user cancel/force possible at every yield and accepted exactly when the class' own cancellable/forcible holds, fresh generators from every reachable state) the body is never invoked with the cancel flag set. (R04f) a completion of an earlier invocation leaves the re-armed node alone; (R04g) an Alarm that re-arms unregisters the interrupts of the body it resets; (R04h) an interrupt unregistered earlier in the tick is not resumed. (R04i) handlers are ended with the blocks they were registered in (macro calls inside a Block); (R04k) a re-arm concludes the waiting children; (R04j) interrupt handlers park on trailing whitespace - open known finding (the repair contradicts C02's last sentence)."),
    "C05": ("sibling agreement of the two End-block visitors + lock acquire/release pairing on the CFG of visit_BlockNode",
            "End block and End blocks must perform the same per-block effect set and write the Block tag; the lock-acquired "
            "branch must announce the block before the body; every normal exit releases the lock; completion after the body is "
            "reachable only once block_ended; the lock is taken only when all locked blocks are ancestors.",
            "The single-chain invariant over all reachable interpreter states and which block `End block` picks are data-dependent and not decided. R05c is role-based and also requires the set of locked blocks to be read from the lock flags at decision time; a stored snapshot must be refreshed by the statement that takes the lock. (R05d) End block chooses among locked blocks that have not been ended; (R05e) the Block tag is cleared when Stop/Restart replace the interpreter. (R05f) locks of blocks below an aborted interrupt are released; (R05g) the un-weakened ended-block test guards every child visit, in handlers too. (R05h) End blocks ends only not-yet-ended blocks and names the next enclosing one; (R05i) a Block waiting for the lock does not start inside an ended block; (R05j) an Alarm re-arms only when no handler of its body is executing."),
    "C14": ("lookup-domain agreement rule for interrupts + effect check of inject_node + guard check of the interpreter tick",
            "Every node handed to _register_interrupt must be findable where the live-edit merge looks interrupts up (the "
            "program tree) or the merge must consult the injected-node registry; inject_node may not write method progress; "
            "injected interrupts advance only through PInterpreter.tick under the started/not-paused/holding/stopping guard.",
            "Exactly-once execution of arbitrary snippets is not decided. R14a is violated today (injected nodes are not in the "
            "tree and are dropped by a merge): open known finding. (R14d) one loop-free call site per link of the resolved inject call chain; (R14e) the id generator of the inject parser is never re-created or reset. (R14f, known finding) executing requests across the interpreter swap; (R14g) an injected Call macro makes its own invocation; (R14h, known finding) injected blocks are outside the lock's lookup domain."),
    "C41": ("dominance of the invocation by the undefined/recursion tests, ownership of the macro table, validation raises for started macros",
            "The macro body invocation must be dominated by the undefined-macro raise and by the recursion test on "
            "macro_calling_macro's result, lie on no cycle, and be followed by the completion counter; ProgramNode.macros is "
            "written only by _register_macro (unconditional overwrite) and looked up by name at call time; the live-edit "
            "validation raises for a started macro that is missing, retyped or modified.",
            "Completeness of the recursion detector over arbitrary macro call graphs is out of static reach (it follows only the first Call macro child). (R41d) the recursion search follows every Call macro line and returns a path only if it reaches the target; (R41e) its result is computed at call time. (R41d) the search covers call lines nested in blocks/watches/alarms (not nested definitions); (R41f) look-up repeated after waiting; (R41g) all started definitions are protected; (R41h) executing handlers of the previous call are awaited; (R41i) re-execution re-defines; (R41j) the ended-block walk stops at the enclosing macro. (R41k) the call counters only grow and active_call_id is only ever a call node's id."),
    "C17": ("path enumeration of the parser's nesting loop (exactly-once append), id-assignment audit, totality audit against a justified table",
            "Every acyclic path through the body of the indentation loop of parse_method must call append_child(node) exactly "
            "once and the first loop must produce exactly one node per line; every returned node carries an id; partial "
            "operations (index, float/int of text, computed subscripts) outside try must be justified sites; the indentation "
            "unit is 4 everywhere and odd indentation is flagged.",
            "Decides exactly-one and never-raises structure for all method texts; the nesting law of the if/elif chain is value-level and not decided. (R17d) path-sensitive: a line flagged with an indentation error never becomes the indentation reference. (R17e-R17h) structural necessary conditions of the nesting law found by hunting: an opener without a body is left before the next line is placed; only instruction lines settle the owed increase; every Position takes its column from the line; only spaces count as indentation."),
    "C18": ("constant folding of the grammar regexes + regex-AST queries + operator order table",
            "Grammar's patterns are folded from the source and parsed with the regex parser: group names must match the keys "
            "the parser reads, instruction_name cannot contain ':'/'#', argument cannot contain '#', rhs patterns are "
            "anchored; operator lists must not place an operator before one containing it; every character of every unit in "
            "QUANTITY_UNIT_MAP must lie in the unit class of the condition grammar.",
            "Decides grammar-level facts; the unit class lacks '°' and 'µ' today (open known finding: a baseline test pins the regex text). (R18e) the float group accepts every decimal literal float() converts; (R18f) the value / value-unit alternatives are disjoint or the unit-less one is tried first. (R18g) coverage of the line grammar by language inclusion - four open known findings (threshold forms, separator, non-ASCII name start, bare colon before a comment) whose repair is blocked by tests pinning the pattern text; R18b's threshold/argument clauses are language checks, not text comparisons."),
    "C21": ("dispatch-table check of the match statement + symmetry of the comparability relation derived from literal tables",
            "Every operator literal must be wired to the same-named Python comparison on (quantity_a, quantity_b); the "
            "unit -> compatible-units relation is reconstructed from the literal special cases and QUANTITY_UNIT_MAP and "
            "checked for symmetry on all 101 derived pairs (are_comparable consults only its first operand); both operands "
            "must be normalised by the same expressions.",
            "Exactness of Decimal/pint conversion and trichotomy on values are not decided. '%' vs vol%/wt%/mol% is asymmetric today (open known findings). Operands assigned together must be the same expression of their own side's value and unit. (R21e, known finding) operands of different units are compared as pint Quantities directly, each operator converting differently."),
    "C20": ("two-sided table agreement: published names vs parser tables, regex-language inclusion (search vs match automata) of analyzer-side "
            "and run-time validators, abstract-case path exploration of the unit checks",
            "The analysis side and the run-time side are separate code; each failure kind of the property is reduced to an agreement "
            "that holds for every method: published command names are parser instruction names, the analyzer's accepted argument "
            "language is included in the run-time's per command (decided on automata built from the constant-evaluated patterns and "
            "the re function each side applies), every abstract unit case the run-time rejects ends in an analyzer ERROR on all paths, "
            "every run-time tag lookup by a method-supplied name has an analyzer test, the tag collections agree, and compound "
            "percentage units are commensurable.",
            "Decides the agreements listed; pint arithmetic beyond the stated grammar fact, uod-specific parse functions and macro "
            "errors are not decided. Base (static unit list vs uod-registered units) and 'mol%' are open known findings. The match mode of parse/validate is read through compiled patterns and helper delegation (opstatic/matchsite.py). (R20f) values handed to the Decimal unit registry are Decimals by construction."),
    "C22": ("partial evaluation of the pattern builders + regex-AST automata: language equivalence against the documented language",
            "RegexNumber / RegexCategorical are evaluated symbolically (placeholder symbols for unit / option lists), the resulting "
            "templates are compiled to automata and compared with the documented language for all instantiation shapes "
            "(a shortest counterexample word is produced); interpolated lists must pass through re.escape; the markers the reader "
            "methods search for must occur in the writer templates; no split on an escapable character after unescape.",
            "Decides the template languages over an abstract alphabet; concrete option/unit strings are represented by one symbol "
            "each. The categorical template accepts an empty value and leading/doubled '+' today (open known findings). (R22f) parse/validate match their own parameter against the pattern they were constructed with, both untouched, and parse returns that match's groups. (R22g) a named group is read up to its own closing parenthesis."),
    "C27": ("single-writer + guard check of sequence numbers, exhaustiveness of the state dispatch over the RecoverState literal, "
            "kill/must-pass-through rules on the buffer",
            "sequence_number has one writer guarded by == -1 on an increasing counter and both send paths call it; _post_async "
            "handles every RecoverState literal (posted, buffered or justified); the failed-send handler buffers on every path; "
            "the transition to Reconnected is reachable only with an empty buffer and buffered messages leave the buffer only on the "
            "path that posts each of them.",
            "Delivery order and duplication under all task interleavings (asyncio.gather ordering) are schedule properties and are "
            "not decided. (R27e) the gathered posts of a batch are not cancellable once their messages left the buffer. (R27f) ConnectionClosedOK and ConnectionClosedError both map to the network exception."),
    "C39": ("writer-agreement rules over every csv.writer call + value-independence of the omission predicate over the Tag hierarchy",
            "All csv.writer calls of the archiver share one dialect bound to module constants with an escape character whenever "
            "quoting is QUOTE_NONE; header and rows iterate the same tag sequence under the same omission predicate and every "
            "archive() override returns None on all paths or on none; the mark separator is disjoint from the dialect's special "
            "characters.",
            "The byte-level behaviour of Python's csv module is trusted; read-back equality of values is not decided. (R39d) the run id is taken before the base class clears it; (R39e) newline='' on every open; (R39f) a final row before the file is released; (R39g) a failing row write is swallowed after archive() handed the values out - open known finding."),
    "C40": ("lock-discipline (effect) analysis: cross-thread entry points discovered from the message handlers, shared-state "
            "effects must be lexically under the engine lock, non-reentrancy check",
            "Entry points are the Engine methods called from EngineMessageHandlers; every statement that touches the state "
            "Engine.tick uses under its lock (interpreter, tracking, method manager, command manager, run-state flags) must lie "
            "inside `with self._lock`; the tick's execute phase must be under the lock; no function reachable inside a locked region "
            "re-acquires the non-reentrant lock. Covers every thread schedule because the rule is about lock coverage, not about "
            "observed interleavings.",
            "Does not model the GIL or asyncio scheduling; the queue hand-off (CommandManager.schedule) is trusted to be thread-safe. "
            "Three unlocked entry points were repaired (fix: ff1ae728). (R40d, known finding) acknowledged requests do not survive the interpreter swap of a live edit."),
}

DESIGN_NA = {
}

ALL_IDS = [f"C{i:02d}" for i in range(1, 42)]

CHECKS = []
NOT_APPLICABLE = []
for pid in ALL_IDS:
    has_rule = os.path.exists(os.path.join(_HERE, "rules", f"{pid}.py"))
    if pid in DESIGN_NA:
        NOT_APPLICABLE.append({"property_id": pid, "reason": "static analysis not applicable: " + DESIGN_NA[pid]})
    elif has_rule and pid in TABLE:
        t, lvl, note = TABLE[pid]
        CHECKS.append({"id": pid, "technique": t, "level": lvl, "note": note})
    else:
        NOT_APPLICABLE.append({"property_id": pid, "reason": "rule not built (yet) in this static-analysis framework; "
                               "not claimed rather than claimed with a stub - see DESIGN.md §4 for the planned rule"})
