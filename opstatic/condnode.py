"""Request-state model of a conditional instruction (Watch / Alarm), shared by C04 and C12.

The visitor of a Watch or Alarm is a generator; between two of its yields the user may cancel or force the instruction
(Tracking.mark_cancelled -> node.cancel(), mark_forced -> node.force(); each applies only when the node's own
`cancellable` / `forcible` property says so). Whether the body can still run after an accepted cancel therefore depends on
three pieces of code agreeing: the property that accepts the request, the flags the visitor tests after it resumes, and the
helper that evaluates the condition. This module decides that agreement by exhaustive exploration of a finite abstraction:

  state      one boolean per bool-initialised attribute of the node class that the visitor, its helpers or the properties read
             (`_cancelled`, `_forced`, `activated`, `awaiting_condition`, `interrupt_registered`, ...) plus the bool locals of
             inlined helpers; everything else is abstracted (conditions on other data take both branches)
  program    the visitor's CFG, helpers that receive the node inlined (absint.Interp); properties are expanded through the
             node class' MRO, so `node.cancellable` means whatever the most derived override computes
  environment at every yield: nothing, `cancel()`, or `force()` - both interpreted from their source
  re-entry   a fresh generator of the same visitor may start from any reachable state (`_register_interrupt` creates one, a
             merged method restores node state and visits again)

Outcomes: `body_states` - states in which the body invocation is reached; `stuck` - yields at which a generator still waits
after a force was accepted. Nothing here runs Open-Pectus code; roles are discovered (the node is the visitor's first
parameter, the body is the `yield from` of the children visitor), no local or parameter name is assumed.
"""
from __future__ import annotations

import ast

from .absint import Binding, Interp, UNKNOWN, mk, sd
from .model import AnchorError, FuncInfo, norm, walk_no_nested
from .util import cfg_of, call_attr

PH = "§"  # placeholder prefix for expanded attribute reads


class CondBinding(Binding):
    def __init__(self, prog, res, kls, visitor: FuncInfo):
        self.prog, self.res, self.kls, self.visitor = prog, res, kls, visitor
        self.node_classes = set(id(c) for c in kls.mro())
        params = [a.arg for a in visitor.node.args.args]
        if len(params) < 2:
            raise AnchorError(f"{visitor.qualname}: no node parameter")
        self.nodevar: dict[int, str] = {id(visitor.node): params[1]}
        self._memo: dict = {}
        # boolean attributes: initialised with a bool constant in some __init__ of the MRO
        self.init: dict[str, bool] = {}
        for c in reversed(kls.mro()):
            for name, sites in c.inst_attr_vals.items():
                for fn, v in sites:
                    if fn.name == "__init__" and isinstance(v, ast.Constant) and isinstance(v.value, bool):
                        self.init[name] = v.value
        self.vars = {}
        self.locals: dict[int, set[str]] = {}
        self._funcs: list[FuncInfo] = []
        self._collect(visitor)
        for m in ("cancel", "force"):
            fn = kls.find_method(m)
            if fn is None:
                raise AnchorError(f"{kls.name}.{m} not found")
            self._collect(fn)
        used: set[str] = set()
        for fn in self._funcs:
            nv = self._nv(fn)
            for n in walk_no_nested(fn.node):
                if isinstance(n, ast.Attribute) and isinstance(n.value, ast.Name) and n.value.id == nv:
                    used |= self._attr_reads(n.attr)
        for a in sorted(used):
            if a in self.init:
                self.vars[a] = (False, True)
        for fn in self._funcs:
            for name in self.locals.get(id(fn.node), ()):
                self.vars[self._lv(fn, name)] = (False, True)

    # -- discovery -----------------------------------------------------------------------------
    def _nv(self, fn: FuncInfo) -> str | None:
        if id(fn.node) in self.nodevar:
            return self.nodevar[id(fn.node)]
        if fn.cls is not None and id(fn.cls) in self.node_classes and fn.node.args.args:
            return fn.node.args.args[0].arg
        return None

    def _lv(self, fn: FuncInfo, name: str) -> str:
        return f"{fn.short}:{name}"

    def _attr_reads(self, attr: str, depth=0) -> set[str]:
        """Underlying attributes read through `node.<attr>` (properties expanded along the MRO)."""
        p = self.kls.find_method(attr)
        if p is None or not p.is_property or depth > 4:
            return {attr}
        out: set[str] = set()
        sv = p.node.args.args[0].arg
        for n in walk_no_nested(p.node):
            if isinstance(n, ast.Attribute) and isinstance(n.value, ast.Name) and n.value.id == sv:
                out |= self._attr_reads(n.attr, depth + 1)
        return out

    def _collect(self, fn: FuncInfo, depth=0):
        if any(x is fn for x in self._funcs) or depth > 5:
            return
        self._funcs.append(fn)
        loc = set()
        for n in walk_no_nested(fn.node):
            if isinstance(n, ast.Assign) and len(n.targets) == 1 and isinstance(n.targets[0], ast.Name) \
                    and isinstance(n.value, ast.Constant) and isinstance(n.value.value, bool):
                loc.add(n.targets[0].id)
        self.locals[id(fn.node)] = loc
        for n in walk_no_nested(fn.node):
            if isinstance(n, ast.Call):
                for t in self._targets(n, fn):
                    self._collect(t, depth + 1)

    def _is_gen(self, fn: FuncInfo) -> bool:
        return any(isinstance(n, (ast.Yield, ast.YieldFrom)) for n in walk_no_nested(fn.node))

    def _targets(self, call: ast.Call, f: FuncInfo) -> list[FuncInfo]:
        """Callees that receive the node (as receiver, through super(), or as an argument); the callee's name for the node
        is recorded."""
        nv = self._nv(f)
        if nv is None:
            return []
        out: list[FuncInfo] = []
        fn = call.func
        if isinstance(fn, ast.Attribute) and isinstance(fn.value, ast.Name) and fn.value.id == nv:
            t = self.kls.find_method(fn.attr)
            if t is not None and not t.is_property:
                out.append(t)
        elif isinstance(fn, ast.Attribute) and isinstance(fn.value, ast.Call) and isinstance(fn.value.func, ast.Name) \
                and fn.value.func.id == "super" and f.cls is not None and id(f.cls) in self.node_classes:
            t = self.kls.find_method_after(fn.attr, f.cls)
            if t is not None:
                out.append(t)
        else:
            idx = [i for i, a in enumerate(call.args) if isinstance(a, ast.Name) and a.id == nv]
            kw = [k.arg for k in call.keywords if isinstance(k.value, ast.Name) and k.value.id == nv and k.arg]
            if idx or kw:
                for t in self.res.resolve_call(call, f, cha=False):
                    ps = [a.arg for a in t.node.args.args]
                    off = 1 if (t.cls is not None and not t.is_static and isinstance(fn, ast.Attribute)) else 0
                    name = kw[0] if kw else (ps[idx[0] + off] if idx[0] + off < len(ps) else None)
                    if name is None:
                        continue
                    prev = self.nodevar.get(id(t.node))
                    if prev is not None and prev != name:
                        raise AnchorError(f"{t.qualname} receives the node under two names")
                    self.nodevar[id(t.node)] = name
                    out.append(t)
        return [t for t in out if not self._is_gen(t)]

    # -- Binding -------------------------------------------------------------------------------
    def expand(self, e: ast.AST, f: FuncInfo, depth=0) -> ast.AST:
        nv = self._nv(f)
        b = self

        class X(ast.NodeTransformer):
            def visit_Attribute(self, n: ast.Attribute):
                if isinstance(n.value, ast.Name) and n.value.id == nv and nv is not None:
                    p = b.kls.find_method(n.attr)
                    if p is not None and p.is_property and depth < 5:
                        body = [s for s in p.node.body if not (isinstance(s, ast.Expr) and isinstance(s.value, ast.Constant))]
                        if len(body) == 1 and isinstance(body[0], ast.Return) and body[0].value is not None:
                            return b.expand(body[0].value, p, depth + 1)
                        return ast.Name(id=PH + "?" + n.attr, ctx=ast.Load())
                    return ast.Name(id=PH + n.attr, ctx=ast.Load())
                return self.generic_visit(n)

            def visit_Lambda(self, n):
                return n
        import copy
        return X().visit(copy.deepcopy(e))

    def read(self, expr, f):
        if isinstance(expr, ast.Name):
            if expr.id.startswith(PH):
                a = expr.id[len(PH):]
                return a if a in self.vars else None
            if expr.id in self.locals.get(id(f.node), ()):
                return self._lv(f, expr.id)
        nv = self._nv(f)
        if isinstance(expr, ast.Attribute) and isinstance(expr.value, ast.Name) and expr.value.id == nv and expr.attr in self.vars:
            p = self.kls.find_method(expr.attr)
            if p is None or not p.is_property:
                return expr.attr
        return None

    def const(self, expr, f, var=None):
        if isinstance(expr, ast.Constant) and isinstance(expr.value, bool):
            return expr.value
        return UNKNOWN

    def writes(self, n, f):
        a = n.ast
        out = []
        if n.kind != "stmt":
            return out
        tv = []
        if isinstance(a, ast.Assign):
            tv = [(t, a.value) for t in a.targets]
        elif isinstance(a, ast.AnnAssign) and a.value is not None:
            tv = [(a.target, a.value)]
        elif isinstance(a, ast.AugAssign):
            tv = [(a.target, None)]
        nv = self._nv(f)
        for t, v in tv:
            if isinstance(t, ast.Attribute) and isinstance(t.value, ast.Name) and t.value.id == nv and t.attr in self.vars:
                out.append((t.attr, v))
            elif isinstance(t, ast.Name) and t.id in self.locals.get(id(f.node), ()):
                out.append((self._lv(f, t.id), v))
        return out

    def inline(self, call, f):
        k = id(call)
        if k not in self._memo:
            self._memo[k] = [t for t in self._targets(call, f) if self._touches(t)]
        return self._memo[k]

    def _touches(self, fn: FuncInfo, depth=0) -> bool:
        k = ("t", id(fn.node))
        if k in self._memo:
            return self._memo[k]
        self._memo[k] = False
        hit = False
        nv = self._nv(fn)
        for n in walk_no_nested(fn.node):
            if isinstance(n, ast.Attribute) and isinstance(n.ctx, ast.Store) and isinstance(n.value, ast.Name) \
                    and n.value.id == nv and n.attr in self.vars:
                hit = True
            elif isinstance(n, ast.Call) and depth < 4 and not hit:
                hit = any(self._touches(t, depth + 1) for t in self._targets(n, fn))
        self._memo[k] = hit
        return hit

    def assert_may_fail(self, a, f):
        return True


class CondInterp(Interp):
    def eval_cond(self, e, s, f):
        if not getattr(e, "_cn_expanded", False):
            e = self.b.expand(e, f)
            for n in ast.walk(e):
                n._cn_expanded = True
        return super().eval_cond(e, s, f)

    def eval_value(self, e, s, f, var):
        if e is None:
            return [False, True]
        if isinstance(e, ast.AST):
            c = self.b.const(e, f, var)
            if c is not UNKNOWN:
                return [c]
            v = self.eval_cond(e, s, f)
            if v is None:
                return [False, True]     # a value the model cannot evaluate: either
            return [v]
        return super().eval_value(e, s, f, var)


class CondModel:
    """Explores one visitor (visit_WatchNode / visit_AlarmNode) for one node class."""

    def __init__(self, prog, res, kls, visitor: FuncInfo, body_call: str = "_visit_children"):
        self.b = CondBinding(prog, res, kls, visitor)
        self.it = CondInterp(self.b, max_depth=6)
        self.kls, self.visitor = kls, visitor
        g = cfg_of(visitor)
        nv = self.b._nv(visitor)
        self.body_nodes = {n.id for n in g.nodes if n.kind == "stmt" and isinstance(n.ast, (ast.Expr, ast.Assign)) and any(
            isinstance(y, ast.YieldFrom) and isinstance(y.value, ast.Call) and call_attr(y.value) == body_call
            and any(isinstance(a, ast.Name) and a.id == nv for a in y.value.args) for y in ast.walk(n.ast))}
        if not self.body_nodes:
            raise AnchorError(f"{visitor.qualname}: body invocation (`yield from` the children visitor) not found")
        self.g = g
        self.cancel_fn = kls.find_method("cancel")
        self.force_fn = kls.find_method("force")
        self.cancel_attrs = self._set_true(self.cancel_fn)
        self.force_attrs = self._set_true(self.force_fn)
        if not self.cancel_attrs or not self.force_attrs:
            raise AnchorError(f"{kls.name}.cancel/force: the flag they set was not recognised")
        self.reach: dict[tuple, tuple] = {}        # (kind, nid, state) -> predecessor key + label (for histories)
        self.body_states: list[tuple] = []
        self.stuck: list[tuple] = []
        self.dropped: list[tuple] = []             # generator finished with an accepted force and the body is unreachable from there
        self.succ: dict[tuple, set[tuple]] = {}
        self.events = 0
        self._explore()
        self._find_dropped()

    def _set_true(self, fn: FuncInfo) -> set[str]:
        sv = fn.node.args.args[0].arg
        return {t.attr for n in walk_no_nested(fn.node) if isinstance(n, ast.Assign) and isinstance(n.value, ast.Constant)
                and n.value.value is True for t in n.targets
                if isinstance(t, ast.Attribute) and isinstance(t.value, ast.Name) and t.value.id == sv and t.attr in self.b.vars}

    def cancelled(self, st) -> bool:
        d = sd(st)
        return any(d[a] for a in self.cancel_attrs)

    def forced(self, st) -> bool:
        d = sd(st)
        return any(d[a] for a in self.force_attrs)

    def init_state(self):
        d = {}
        for v in self.b.vars:
            d[v] = self.b.init.get(v, False)
        return mk(d)

    def _env(self, s):
        """States after one user request (or none) while the generator is suspended."""
        out = [("", s)]
        for label, fn in (("cancel", self.cancel_fn), ("force", self.force_fn)):
            for o in self.it.run(fn, s):
                if o[0] == "return" and o[1] != s:
                    out.append((label, o[1]))
        return out

    def _explore(self):
        s0 = self.init_state()
        todo = [("entry", None, s0)]
        self.reach[("entry", None, s0)] = (None, "new node")
        seen_entry = {s0}
        while todo:
            key = todo.pop(0)
            kind, nid, s = key
            outs = self.it.run(self.visitor, s, None if kind == "entry" else nid)
            for o in outs:
                if o[0] == "raise":
                    continue
                if o[0] == "yield":
                    y, st = o[1], o[2]
                    if y in self.body_nodes:
                        bk = ("body", y, st)
                        self.succ.setdefault(key, set()).add(bk)
                        if bk not in self.reach:
                            self.reach[bk] = (key, "body invoked")
                            self.body_states.append(bk)
                        # the body runs for a while; afterwards the generator continues behind it
                    # a yield behind the body walk is not a wait for the force any more: the body has run
                    behind_body = any(self.g.dominates(self.g.nodes[b], self.g.nodes[y]) for b in self.body_nodes if b != y)
                    if kind == "resume" and y == nid and st == s and self.forced(s) and y not in self.body_nodes and not behind_body:
                        self.stuck.append((key, y, st))
                    for label, st2 in self._env(st):
                        self.events += 1
                        k2 = ("resume", y, st2)
                        self.succ.setdefault(key, set()).add(k2)
                        self.succ.setdefault(k2, set()).add(("entry", None, st2))
                        if k2 not in self.reach:
                            self.reach[k2] = (key, f"yield at line {self.g.nodes[y].lineno}" + (f", user {label} accepted" if label else ""))
                            todo.append(k2)
                        if st2 not in seen_entry:
                            # a fresh generator of the visitor may start in any reachable state
                            seen_entry.add(st2)
                            k3 = ("entry", None, st2)
                            self.reach[k3] = (k2, "visitor entered again")
                            todo.append(k3)
                else:  # return
                    st = o[1]
                    self.succ.setdefault(key, set()).add(("return", None, st))
                    for label, st2 in self._env(st):
                        self.succ.setdefault(("return", None, st), set()).add(("entry", None, st2))
                        if st2 not in seen_entry:
                            seen_entry.add(st2)
                            k3 = ("entry", None, st2)
                            self.reach[k3] = (key, "generator finished" + (f", user {label} accepted" if label else "") + ", visitor entered again")
                            todo.append(k3)

    def _find_dropped(self) -> None:
        """A generator that finishes in a state with an accepted force, from which no continuation (the user doing nothing more,
        the visitor entered again) ever reaches the body: the force was acknowledged and has no effect."""
        memo: dict[tuple, bool] = {}

        def body_reachable(k0) -> bool:
            seen, todo = {k0}, [k0]
            while todo:
                k = todo.pop()
                if k[0] == "body":
                    return True
                for n in self.succ.get(k, ()):
                    # only continuations without a further user request: same state on entry
                    if n not in seen:
                        seen.add(n)
                        todo.append(n)
            return False
        for key, nxt in list(self.succ.items()):
            for r in nxt:
                if r[0] == "return" and self.forced(r[2]) and not sd(r[2]).get("activated", False):
                    if r not in memo:
                        memo[r] = body_reachable(("entry", None, r[2]))
                    if not memo[r] and key[0] != "body":
                        self.dropped.append((key, r))

    def history(self, key) -> str:
        steps = []
        seen = set()
        while key is not None and key not in seen:
            seen.add(key)
            prev, label = self.reach.get(key, (None, "?"))
            st = sd(key[2])
            on = ",".join(k for k, v in sorted(st.items()) if v and ":" not in k)
            steps.append(f"{label} [{on}]")
            key = prev
        return " > ".join(reversed(steps[:14]))
