"""Findings, evidence writer, known-findings matching, replay files."""
from __future__ import annotations

import json
import os
import time
from dataclasses import dataclass, field

VERIF = os.environ.get("OPSTATIC_VERIF", os.path.dirname(os.path.dirname(os.path.abspath(__file__))))
KNOWN_FILE = os.path.join(VERIF, "known_findings.json")


@dataclass
class Finding:
    prop: str
    rule: str
    file: str            # relpath
    line: int
    function: str        # qualified function (module:Class.func) or table name
    construct: str       # normalised construct text - the KEY, never a line number
    message: str
    path: list[str] = field(default_factory=list)  # witness path (node texts)

    def key(self) -> dict:
        return {"property": self.prop, "rule": self.rule, "function": self.function, "construct": self.construct}

    def describe(self) -> str:
        s = f"[{self.prop}/{self.rule}] {self.file}:{self.line} in {self.function}\n    construct: {self.construct}\n    {self.message}"
        if self.path:
            s += "\n    path: " + " -> ".join(self.path[:14]) + (" -> ..." if len(self.path) > 14 else "")
        return s


class Context:
    """Passed to each rule module's run(): collects obligations, samples, findings."""

    def __init__(self, prop: str, tier: str, prog, resolver, replay: dict | None = None):
        self.prop = prop
        self.tier = tier
        self.prog = prog
        self.res = resolver
        self.findings: list[Finding] = []
        self.obligations = 0
        self.discharged = 0
        self.instances: set[str] = set()      # distinct, non-trivial rule instances (construct keys)
        self.samples: list = []
        self.rules: dict[str, dict] = {}      # rule id -> {desc, instances, held}
        self.functions_analysed: set[str] = set()
        self.notes: list[str] = []
        self.extra: dict = {}
        self.assumptions: list[str] = []
        self.replay = replay
        self.floor_failures: list[str] = []

    # ---- rule bookkeeping
    def rule(self, rid: str, desc: str) -> None:
        self.rules.setdefault(rid, {"description": desc, "instances": 0, "held": 0})

    def analysed(self, f) -> None:
        self.functions_analysed.add(f.qualname if hasattr(f, "qualname") else str(f))

    def ok(self, rid: str, instance: str, sample=None, trivial: bool = False) -> None:
        """One rule instance (obligation) that held."""
        self.rules.setdefault(rid, {"description": "", "instances": 0, "held": 0})
        self.rules[rid]["instances"] += 1
        self.rules[rid]["held"] += 1
        self.obligations += 1
        self.discharged += 1
        if not trivial:
            self.instances.add(f"{rid}|{instance}")
        if sample is not None and len(self.samples) < 40:
            self.samples.append(sample)
        elif sample is None and len(self.samples) < 40:
            self.samples.append({"rule": rid, "instance": instance, "held": True})

    def fail(self, rid: str, f, node, construct: str, message: str, path=None, function: str | None = None,
             file: str | None = None) -> Finding:
        self.rules.setdefault(rid, {"description": "", "instances": 0, "held": 0})
        self.rules[rid]["instances"] += 1
        self.obligations += 1
        self.instances.add(f"{rid}|{construct}")
        fn = function or (f.qualname if f is not None and hasattr(f, "qualname") else str(f))
        fl = file or (f.module.relpath if f is not None and hasattr(f, "module") else "?")
        fd = Finding(self.prop, rid, fl, getattr(node, "lineno", 0) if node is not None else 0, fn, construct, message,
                     [p.text() if hasattr(p, "text") else str(p) for p in (path or [])])
        self.findings.append(fd)
        if len(self.samples) < 60:
            self.samples.append({"rule": rid, "instance": construct, "held": False, "where": f"{fl}:{fd.line}",
                                 "function": fn})
        return fd

    def floor(self, rid: str, minimum: int) -> None:
        """Fail closed if fewer instances of a rule were found than confirmed by hand."""
        got = self.rules.get(rid, {}).get("instances", 0)
        if got < minimum:
            # deferred: violations found in the same run are still reported (exit 1); with no violation the run ends as
            # ANALYSIS-ERROR (exit 2) - see check_floors()
            self.floor_failures.append(f"rule {rid}: only {got} instances found, floor is {minimum} "
                                       f"(the analysed code changed shape; rule would pass vacuously)")

    def check_floors(self, have_new_violations: bool) -> None:
        from .model import AnchorError
        if self.floor_failures and not have_new_violations:
            raise AnchorError("; ".join(self.floor_failures))


def load_known() -> list[dict]:
    if not os.path.exists(KNOWN_FILE):
        return []
    with open(KNOWN_FILE, encoding="utf-8") as f:
        return json.load(f).get("findings", [])


def match_known(fd: Finding, known: list[dict]) -> dict | None:
    for k in known:
        if k.get("status", "open") != "open":
            continue  # fixed entries suppress nothing
        if (k.get("property") == fd.prop and k.get("rule") == fd.rule and k.get("function") == fd.function
                and k.get("construct") == fd.construct):
            return k
    return None


def write_evidence(ctx: Context, wall: float, seed: int, new: list[Finding], known_hits: list[tuple[Finding, dict]],
                   explanation: str, audit: dict | None = None) -> str:
    os.makedirs(os.path.join(VERIF, "evidence"), exist_ok=True)
    path = os.path.join(VERIF, "evidence", f"{ctx.prop}.json")
    samples = ctx.samples[:40] or [{"note": "no instances"}]
    cov = {
        "explanation": explanation,
        "obligations": ctx.obligations,
        "discharged": ctx.discharged,
        "evaluations": max(ctx.obligations, 1),
        "distinct_nontrivial": len(ctx.instances),
        "rule": "one evaluation per rule instance (a concrete construct in /repo's source matched by a rule slot: "
                "call site, assignment, branch, route, class, table entry); distinct = distinct (rule, normalised "
                "construct text) pairs; instances marked trivial by the rule (e.g. empty bodies) are not counted",
        "samples": samples,
        "rules": ctx.rules,
        "functions_analysed": sorted(ctx.functions_analysed),
        "functions_analysed_count": len(ctx.functions_analysed),
        "call_sites_resolved": ctx.res.resolved_calls,
        "call_sites_unresolved": ctx.res.unresolved_calls,
        "known_findings_reported": [dict(fd.key(), where=f"{fd.file}:{fd.line}") for fd, _ in known_hits],
        "new_violations": [dict(fd.key(), where=f"{fd.file}:{fd.line}", message=fd.message) for fd in new],
        "notes": ctx.notes,
        "exhaustive": True,
    }
    cov.update(ctx.extra)
    if audit is not None:
        cov["sensitivity_audit"] = audit
    ev = {
        "property_id": ctx.prop,
        "tier": ctx.tier,
        "seed": seed,
        "level": "other",
        "coverage": cov,
        "assumptions": ctx.assumptions or [
            "CPython 3.12 ast; opstatic CFG/resolver; third-party libraries and user UOD code are outside the model"],
        "wall_s": round(wall, 3),
        "violations": len(new),
    }
    tmp = path + ".tmp"
    with open(tmp, "w", encoding="utf-8") as f:
        json.dump(ev, f, indent=1, default=str)
    os.replace(tmp, path)
    return path


def write_replay(fd: Finding, n: int) -> str:
    d = os.path.join(VERIF, "replay")
    os.makedirs(d, exist_ok=True)
    p = os.path.join(d, f"{fd.prop}-{n}.json")
    with open(p, "w", encoding="utf-8") as f:
        json.dump(dict(fd.key(), file=fd.file, line=fd.line, message=fd.message, path=fd.path), f, indent=1)
    return p
