"""Shared finite model of the engine run-state machine, *extracted from the source* (C06-C09).

Domain (DESIGN §4 C06, Appendix A.5): the four _runstate_* flags, the System State / Run Id /
Method Status tags, the captured pre-pause state, ghost variables for what the output tags and the
hardware hold (live / safe values) and for the Block/Scope clock gate, the in-flight long-running
commands (suspended at a `yield` of their _run generator) and one pending user request.

Transfer functions are not written by hand: Engine.tick, Engine._run, set_error_state, the
`_run`/`cancel` methods of the *EngineCommand classes and _validate_control_command are interpreted
by opstatic.absint over their CFGs. Only the effect of a handful of *calls* is given as a table
(what `_apply_safe_state` does to the ghost output variable etc.), each entry stated in CALL_MODEL.
"""
from __future__ import annotations

import ast

from .absint import Binding, Interp, UNKNOWN, mk, sd
from .model import AnchorError, norm, walk_no_nested
from .util import cfg_of, call_attr, local_single_defs, enum_members

ENGINE = "openpectus.engine.engine:Engine"
IMPL = "openpectus.engine.internal_commands_impl"
CONTROL = ["Start", "Stop", "Pause", "Unpause", "Hold", "Unhold", "Restart"]
FLAGS = {"_runstate_started": "started", "_runstate_paused": "paused", "_runstate_holding": "holding",
         "_runstate_stopping": "stopping"}
TAGVARS = {"SYSTEM_STATE": "sys", "RUN_ID": "run_id", "METHOD_STATUS": "mstatus"}

CALL_MODEL = {
    "_stop_interpreter": "reset_interpreter -> on_interpreter_reset creates a new CommandManager that keeps only the pending "
                         "Restart request: every other in-flight command is no longer driven (orphaned) until a new request "
                         "of the same name finds its instance in the registry",
    "_apply_safe_state": "sets every output tag that has a safe value to it (ghost outs := safe) and returns the previous values "
                         "(ghost cap := previous outs)",
    "_apply_state": "writes the captured values back to the tags (outs := kind of the captured state)",
    "interpreter.tick": "the method may command outputs (outs := live) and may schedule commands (msched := True)",
    "_command_manager.tick": "runs one step of queued / executing commands (explored per command) and of executing UOD "
                             "commands, which may write outputs (outs := live)",
    "hwl.write_batch": "hardware := current output tag values (hw := outs)",
    "emit_on_runstate_change": "Block/Scope Time stop or resume counting according to their on_runstate_change",
    "cancel_all_commands": "every other in-flight command is cancelled: its cancel() override runs and it is removed",
}


GHOSTS = ("prev", "cap", "outs", "hw", "clk", "bad_restore", "err", "mstatus")


class RunStateBinding(Binding):
    def __init__(self, ctx, faults: bool, track=GHOSTS):
        self.ctx = ctx
        self.track = set(track)
        self.prog, self.res = ctx.prog, ctx.res
        self.faults = faults
        self.engine = self.prog.cls(ENGINE)
        impl = self.prog.module(IMPL)
        self.cmd_cls = {}
        for name in CONTROL:
            c = impl.classes.get(f"{name}EngineCommand")
            if c is None or "_run" not in c.methods:
                raise AnchorError(f"{IMPL}:{name}EngineCommand._run not found")
            self.cmd_cls[name] = c
        sysenum = self.prog.cls("openpectus.engine.models:SystemStateEnum")
        self.sys_members = tuple(enum_members(sysenum).keys())
        if not {"Running", "Paused", "Holding", "Stopped", "Restarting"} <= set(self.sys_members):
            raise AnchorError(f"SystemStateEnum members changed: {self.sys_members}")
        self.yields: dict[str, tuple] = {}
        for name, c in self.cmd_cls.items():
            g = cfg_of(c.methods["_run"])
            ys = tuple(n.id for n in g.nodes if n.kind == "stmt" and isinstance(n.ast, ast.Expr)
                       and isinstance(n.ast.value, (ast.Yield, ast.YieldFrom)))
            self.yields[name] = ys
        self.clock_table = self._clock_signal_table()
        self.vars = {
            "started": (False, True), "paused": (False, True), "holding": (False, True), "stopping": (False, True),
            "sys": self.sys_members, "run_id": (None, "set"), "mstatus": ("OK", "Error"),
            "prev": (None, "live", "safe", "psafe", "old"), "cap": ("live", "safe", "psafe"), "outs": ("live", "safe", "psafe"),
            "hw": ("unknown", "live", "safe", "psafe"), "clk": ("run", "stopped"), "msched": (False, True),
            "bad_restore": (None, "psafe", "old", "none"), "cmd": (None,) + tuple(CONTROL), "pend": (None,) + tuple(CONTROL),
            "pend2": (None,) + tuple(CONTROL),
            "pend3": (None,) + tuple(CONTROL),
            "err": (False, True),
        }
        for name in CONTROL:
            self.vars[f"if_{name}"] = (None,) + self.yields[name]
        self.cmd_hook = None     # set by the explorer
        self._engine_like: dict[int, bool] = {}
        self._is_engine_cache: dict[int, bool] = {}
        self._memo: dict = {}
        # snapshot locals: `x = <engine flag / System State>` keeps the value it had at the assignment (it may be used
        # after a yield, when other commands have changed the flag) - one domain variable per such local
        self.snap: dict[tuple[int, str], tuple[str, object]] = {}
        fns = [m for c in impl.classes.values() for m in c.methods.values()] + list(impl.functions.values()) \
            + list(self.engine.methods.values())
        for fn in fns:
            for lname, dexpr in local_single_defs(fn).items():
                neg = False
                e2 = dexpr
                if isinstance(e2, ast.UnaryOp) and isinstance(e2.op, ast.Not):
                    neg, e2 = True, e2.operand
                if isinstance(e2, ast.Name):
                    continue
                src = self.read(e2, fn)
                if src in ("started", "paused", "holding", "stopping", "sys"):
                    var = f"L:{fn.short}:{lname}"
                    self.vars[var] = (None,) + ((False, True) if neg else tuple(self.vars[src]))
                    self.snap[(id(fn.node), lname)] = (var, (lambda d, src=src: not d[src]) if neg else (lambda d, src=src: d[src]))

        # the same for locals bound in a tuple assignment (`prev, e._prev_state = e._prev_state, None`), including _prev_state
        for fn in fns:
            counts: dict[str, int] = {}
            for n_ in walk_no_nested(fn.node):
                if isinstance(n_, ast.Assign):
                    for t_ in n_.targets:
                        for x_ in (t_.elts if isinstance(t_, ast.Tuple) else [t_]):
                            if isinstance(x_, ast.Name):
                                counts[x_.id] = counts.get(x_.id, 0) + 1
            for n_ in walk_no_nested(fn.node):
                if isinstance(n_, ast.Assign) and len(n_.targets) == 1 and isinstance(n_.targets[0], ast.Tuple) \
                        and isinstance(n_.value, ast.Tuple) and len(n_.targets[0].elts) == len(n_.value.elts):
                    for t_, v_ in zip(n_.targets[0].elts, n_.value.elts):
                        if isinstance(t_, ast.Name) and counts.get(t_.id) == 1 and (id(fn.node), t_.id) not in self.snap:
                            src = self.read(v_, fn)
                            if src in ("started", "paused", "holding", "stopping", "sys", "prev"):
                                var = f"L:{fn.short}:{t_.id}"
                                self.vars[var] = (None,) + tuple(x for x in self.vars[src] if x is not None)
                                self.snap[(id(fn.node), t_.id)] = (var, (lambda d, src=src: d[src]))

    # ---- extraction of the clock gate table from tags_impl
    def _clock_signal_table(self):
        table = {}
        for cn in ("BlockTimeTag", "ScopeTimeTag"):
            c = self.prog.cls(f"openpectus.lang.exec.tags_impl:{cn}")
            per = {}
            for m in c.methods.values():
                if not m.name.startswith("on_"):
                    continue
                g = cfg_of(m)
                for n in g.nodes:
                    if n.kind == "stmt" and isinstance(n.ast, ast.Assign) and any(
                            isinstance(t, ast.Attribute) and t.attr == "_paused" for t in n.ast.targets) \
                            and isinstance(n.ast.value, ast.Constant):
                        conds = [(norm(cx), pol) for cx, pol in g.conditions_at(n)]
                        key = None
                        for cx, pol in conds:
                            if pol and "RunStateChange." in cx and "==" in cx:
                                key = cx.split("RunStateChange.")[1].split()[0].strip(")")
                        per[(m.name, key)] = "stopped" if n.ast.value.value else "run"
            table[cn] = per
        if table["BlockTimeTag"] != table["ScopeTimeTag"]:
            raise AnchorError(f"BlockTimeTag and ScopeTimeTag disagree on their pause signals: {table}")
        if not table["BlockTimeTag"]:
            raise AnchorError("no `_paused` gate found in BlockTimeTag/ScopeTimeTag")
        return table["BlockTimeTag"]

    # ---- recognisers
    def is_engine(self, e: ast.AST, f) -> bool:
        k = id(e)
        if k not in self._is_engine_cache:
            cs = self.res.receiver_classes(e, f)
            self._is_engine_cache[k] = any(c is self.engine for c in cs)
        return self._is_engine_cache[k]

    def tagref(self, e: ast.AST, f, depth=0) -> str | None:
        """SystemTagName member of a tag expression: <engine>._system_tags[SystemTagName.X] / .get(SystemTagName.X) / alias."""
        if depth > 3:
            return None
        if isinstance(e, ast.Subscript) and isinstance(e.value, ast.Attribute) and e.value.attr == "_system_tags":
            t = norm(e.slice)
            if t.startswith("SystemTagName."):
                return t.split(".")[1]
        if isinstance(e, ast.Call) and call_attr(e) == "get" and isinstance(e.func.value, ast.Attribute) \
                and e.func.value.attr == "_system_tags" and e.args and norm(e.args[0]).startswith("SystemTagName."):
            return norm(e.args[0]).split(".")[1]
        if isinstance(e, ast.Name):
            d = local_single_defs(f).get(e.id)
            if d is not None:
                return self.tagref(d, f, depth + 1)
        return None

    def read(self, expr, f):
        if isinstance(expr, ast.Attribute):
            if expr.attr in FLAGS and self.is_engine(expr.value, f):
                return FLAGS[expr.attr]
            if expr.attr == "_prev_state" and self.is_engine(expr.value, f):
                return "prev"
        if isinstance(expr, ast.Call) and call_attr(expr) == "has_error_state" and isinstance(expr.func, ast.Attribute) \
                and self.is_engine(expr.func.value, f) and "err" in self.track:
            return "err"        # has_error_state() <=> _last_error is not None, which the ghost follows
        if isinstance(expr, ast.Call) and call_attr(expr) == "get_value" and isinstance(expr.func, ast.Attribute):
            t = self.tagref(expr.func.value, f)
            if t in TAGVARS:
                return TAGVARS[t]
        if isinstance(expr, ast.Attribute) and expr.attr == "value":
            # the real value of a system tag (the engine's own bookkeeping reads it directly, not the simulation mask)
            t = self.tagref(expr.value, f)
            if t in TAGVARS:
                return TAGVARS[t]
        if isinstance(expr, ast.Name):
            if f.name == "_validate_control_command" and len(f.node.args.args) > 1 and expr.id == f.node.args.args[1].arg:
                return "cmd"
            sn = getattr(self, "snap", {}).get((id(f.node), expr.id))
            if sn is not None:
                return sn[0]
            d = local_single_defs(f).get(expr.id)
            if d is not None and not isinstance(d, ast.Name):
                return self.read(d, f)
        return None

    def table_value(self, expr, f, state):
        """A local bound to `<module dict constant>.get(<key>)` / `[<key>]` where <key> is a domain variable: the literal stored
        under the key's current value - ("list", ast node) / ("none",) - or None if expr is no such local."""
        if not isinstance(expr, ast.Name):
            return None
        dv = local_single_defs(f).get(expr.id)
        tbl = key = None
        if isinstance(dv, ast.Call) and call_attr(dv) == "get" and isinstance(dv.func, ast.Attribute) and isinstance(dv.func.value, ast.Name) \
                and dv.args and (len(dv.args) == 1 or (isinstance(dv.args[1], ast.Constant) and dv.args[1].value is None)):
            tbl, key = dv.func.value.id, dv.args[0]
        elif isinstance(dv, ast.Subscript) and isinstance(dv.value, ast.Name):
            tbl, key = dv.value.id, dv.slice
        if tbl is None:
            return None
        const = f.module.constants.get(tbl)
        kv = self.read(key, f)
        if not isinstance(const, ast.Dict) or kv is None:
            return None
        cur = sd(state)[kv]
        for k_, v_ in zip(const.keys, const.values):
            if k_ is not None and self.const(k_, f, kv) == cur:
                return ("list", v_) if isinstance(v_, (ast.List, ast.Tuple, ast.Set)) else None
        return ("none",)

    def const(self, expr, f, var=None):
        if isinstance(expr, ast.Attribute) and isinstance(expr.value, ast.Name):
            base, m = expr.value.id, expr.attr
            if base == "SystemStateEnum" and m in self.sys_members:
                return m
            if base == "MethodStatusEnum":
                return {"OK": "OK", "ERROR": "Error"}.get(m, UNKNOWN)
            if base == "EngineCommandEnum":
                v = enum_members(self.prog.cls("openpectus.engine.models:EngineCommandEnum")).get(m, UNKNOWN)
                return v if v in CONTROL else UNKNOWN
        if isinstance(expr, ast.Constant):
            return expr.value
        return UNKNOWN

    def writes(self, n, f):
        k = ("w", id(f.node), n.id)
        if k not in self._memo:
            self._memo[k] = [(v, x) for (v, x) in self._writes(n, f) if v not in GHOSTS or v in self.track]
        return self._memo[k]

    def _writes(self, n, f):
        out = []
        a = n.ast
        if n.kind != "stmt":
            return out
        if isinstance(a, ast.Assign):
            pairs = []
            for t in a.targets:
                if isinstance(t, ast.Tuple) and isinstance(a.value, ast.Tuple) and len(t.elts) == len(a.value.elts):
                    pairs += list(zip(t.elts, a.value.elts))     # (all right-hand sides read the state before the statement)
                else:
                    pairs.append((t, a.value))
            for t, aval in pairs:
                a_value = aval
                if isinstance(t, ast.Name) and (id(f.node), t.id) in self.snap:
                    out.append(self.snap[(id(f.node), t.id)])
                if isinstance(t, ast.Attribute) and self.is_engine(t.value, f):
                    if t.attr in FLAGS:
                        out.append((FLAGS[t.attr], a_value))
                    elif t.attr == "_last_error":
                        out.append(("err", not (isinstance(a_value, ast.Constant) and a_value.value is None)))
                    elif t.attr == "_prev_state":
                        if isinstance(a_value, ast.Constant) and a_value.value is None:
                            out.append(("prev", None))
                        elif isinstance(a_value, ast.Call) and call_attr(a_value) == "_apply_safe_state":
                            out.append(("prev", lambda d: d["cap"]))
                        else:
                            # any other expression: a snapshot of whatever the outputs hold right now
                            out.append(("prev", lambda d: d["outs"]))
        for c in n.calls():
            if call_attr(c) == "set_value" and isinstance(c.func, ast.Attribute) and c.args:
                t = self.tagref(c.func.value, f)
                if t in TAGVARS:
                    var = TAGVARS[t]
                    v = c.args[0]
                    if var == "run_id":
                        out.append((var, None if (isinstance(v, ast.Constant) and v.value is None) else "set"))
                    else:
                        out.append((var, v))
        return out

    def assert_may_fail(self, a, f):
        return False  # the engine's asserts are `x is not None` sanity checks outside the domain

    def _fn_text(self, call, f) -> str:
        """Text of the called function with a receiver that is a single-assignment local replaced by its definition
        (`hwl = self.uod.hwl; hwl.write_batch(..)` -> `self.uod.hwl.write_batch`): classification by role, not by local name."""
        fx = call.func
        if isinstance(fx, ast.Attribute) and isinstance(fx.value, ast.Name) and f is not None:
            d = local_single_defs(f).get(fx.value.id)
            if d is not None and isinstance(d, (ast.Attribute, ast.Name)):
                return f"{norm(d)}.{fx.attr}"
        return norm(fx)

    def may_raise(self, call, f):
        if not self.faults:
            return False
        k = ("n", id(call))
        if k not in self._memo:
            self._memo[k] = (call_attr(call), self._fn_text(call, f))
        t = self._memo[k][1]
        return t.endswith(("interpreter.tick", "_command_manager.tick", "hwl.read_batch", "hwl.write_batch"))

    def inline(self, call, f):
        k = ("i", id(call))
        if k not in self._memo:
            self._memo[k] = self._inline(call, f)
        return self._memo[k]

    def _inline(self, call, f):
        out = []
        for callee in self.res.resolve_call(call, f, cha=False):
            if callee.cls is self.engine or callee.module.name == IMPL:
                if self._touches(callee):
                    out.append(callee)
        return out

    def _touches(self, fn, depth=0) -> bool:
        k = id(fn.node)
        if k in self._engine_like:
            return self._engine_like[k]
        self._engine_like[k] = False
        txt = ast.dump(fn.node)
        hit = any(x in txt for x in list(FLAGS) + ["_prev_state", "_system_tags", "_apply_safe_state", "_apply_state",
                                                   "emit_on_runstate_change", "write_batch", "cancel_all_commands"])
        if not hit and depth < 3:
            for c in walk_no_nested(fn.node):
                if isinstance(c, ast.Call):
                    for callee in self.res.resolve_call(c, fn, cha=False):
                        if callee.cls is self.engine or callee.module.name == IMPL:
                            if self._touches(callee, depth + 1):
                                hit = True
        self._engine_like[k] = hit
        return hit

    def call_effect(self, call, f, state):
        res = self._call_effect(call, f, state)
        if res is None:
            return None
        base = sd(state)
        out = []
        for s in res:
            d = sd(s)
            for g in GHOSTS:
                if g not in self.track:
                    d[g] = base[g]
            out.append(mk(d))
        return list(dict.fromkeys(out))

    def _call_effect(self, call, f, state):
        k = ("n", id(call))
        if k not in self._memo:
            self._memo[k] = (call_attr(call), self._fn_text(call, f))
        name, fn = self._memo[k]
        if not (name in ("_stop_interpreter", "_apply_safe_state", "_apply_state", "cancel_all_commands")
                or (name or "").startswith("emit_on_") or fn.endswith(("hwl.write_batch", "interpreter.tick", "_command_manager.tick"))):
            return None
        d = sd(state)
        if name == "_stop_interpreter" and f.cls is not None and f.cls.module.name == IMPL:
            d["orph"] = tuple(sorted(set(d["orph"]) | {n for n in CONTROL if n != "Restart" and d[f"if_{n}"] is not None}))
            return [mk(d)]
        if name == "_apply_safe_state":
            d["cap"] = d["outs"]
            # "psafe": safe values applied *by a pause*; capturing them means a capture was taken while a pause was in effect
            d["outs"] = "psafe" if (f.cls is not None and f.cls.name == "PauseEngineCommand") else "safe"
            return [mk(d)]
        if name == "_apply_state":
            p = d["prev"]
            if call.args and isinstance(call.args[0], ast.Name):
                sn = self.snap.get((id(f.node), call.args[0].id))
                if sn is not None:
                    p = d[sn[0]]
            if p in ("live", "safe"):
                d["outs"] = p
            elif p == "psafe":
                d["outs"] = "psafe"
                d["bad_restore"] = "psafe"
            elif p == "old":
                d["outs"] = "live"
                d["bad_restore"] = "old"
            return [mk(d)]
        if name == "emit_on_runstate_change" and call.args:
            key = norm(call.args[0]).split(".")[-1]
            v = self.clock_table.get(("on_runstate_change", key))
            if v is not None:
                d["clk"] = v
            return [mk(d)]
        if name is not None and name.startswith("emit_on_"):
            ev = "on_" + name[len("emit_on_"):]
            v = self.clock_table.get((ev, None))
            if v is not None:
                d["clk"] = v
                return [mk(d)]
            return None
        if fn.endswith("hwl.write_batch"):
            d["hw"] = d["outs"]
            return [mk(d)]
        if fn.endswith("interpreter.tick") and f.cls is self.engine:
            d["outs"] = "live"
            d["msched"] = True
            return [mk(d)]
        if fn.endswith("_command_manager.tick") and f.cls is self.engine:
            if self.cmd_hook is None:
                return [state]
            return self.cmd_hook(state)
        if name == "cancel_all_commands":
            src = f.cls.name.replace("EngineCommand", "") if f.cls is not None else None
            states = [state]
            for other in CONTROL:
                if other == src:
                    continue
                nxt = []
                for s in states:
                    ds = sd(s)
                    if ds[f"if_{other}"] is None:
                        nxt.append(s)
                        continue
                    ds[f"if_{other}"] = None
                    ds["orph"] = tuple(x for x in ds["orph"] if x != other)
                    s2 = mk(ds)
                    cm = self.cmd_cls[other].find_method("cancel")
                    if cm is not None and cm.cls is self.cmd_cls[other]:
                        for o in self.interp.run(cm, s2):
                            nxt.append(o[-1])
                    else:
                        nxt.append(s2)
                states = nxt
            return states
        if name == "set_error_state" and f.cls is self.engine:
            return None  # inlined
        return None


class OrderPolicy:
    """Order in which CommandManager.execute_commands steps the commands due in one tick, *extracted* from its source:
    how new requests enter self.cmd_executing (insert(0, r) = newest first, append(r) = oldest first) and any re-ordering
    applied before the stepping loop (a `sort(key=lambda r: [not] r.name [not] in <module constant>)`).
    Anything else that reorders the list is not understood -> AnchorError (fail closed)."""

    CM = "openpectus.engine.command_manager"

    def __init__(self, prog):
        cm = prog.cls(f"{self.CM}:CommandManager")
        xc = cm.find_method("execute_commands")
        if xc is None:
            raise AnchorError("CommandManager.execute_commands missing")
        self.newest_first = None
        self.key = None          # name -> sortable
        self.key_text = None
        self.reverse = False
        for fn in cm.methods.values():
            for n in walk_no_nested(fn.node):
                if not (isinstance(n, ast.Call) and isinstance(n.func, ast.Attribute) and isinstance(n.func.value, ast.Attribute)
                        and n.func.value.attr == "cmd_executing"):
                    if isinstance(n, (ast.Assign, ast.AugAssign)):
                        tg = n.targets if isinstance(n, ast.Assign) else [n.target]
                        for t in tg:
                            if isinstance(t, ast.Attribute) and t.attr == "cmd_executing" and fn.name != "__init__":
                                raise AnchorError(f"CommandManager.{fn.name}: cmd_executing re-bound ({norm(n)[:60]}): "
                                                  "execution order policy not understood")
                            if isinstance(t, ast.Subscript) and isinstance(t.value, ast.Attribute) and t.value.attr == "cmd_executing":
                                raise AnchorError(f"CommandManager.{fn.name}: cmd_executing written by index/slice: execution "
                                                  "order policy not understood")
                    continue
                m = n.func.attr
                if m in ("remove", "copy", "index", "count", "clear"):
                    continue
                if m == "append" and fn.name == "__init__":
                    continue
                if fn is not xc:
                    raise AnchorError(f"CommandManager.{fn.name}: cmd_executing.{m}(...) outside execute_commands: execution "
                                      "order policy not understood")
                if m == "insert" and n.args and isinstance(n.args[0], ast.Constant) and n.args[0].value == 0:
                    self.newest_first = True
                elif m == "append":
                    self.newest_first = False
                elif m == "sort":
                    self._parse_sort(n, prog)
                else:
                    raise AnchorError(f"CommandManager.execute_commands: cmd_executing.{m}(...): execution order policy not understood")
        if self.newest_first is None:
            raise AnchorError("CommandManager.execute_commands: how new requests enter cmd_executing was not found")
        # the stepping loop iterates the list in order
        cur = cm.find_method("currently_executing")
        loops = [n for n in walk_no_nested(xc.node) if isinstance(n, ast.For) and norm(n.iter) in ("self.currently_executing", "self.cmd_executing")]
        if not loops or cur is None or not any(isinstance(n, ast.For) and norm(n.iter) == "self.cmd_executing" for n in walk_no_nested(cur.node)):
            raise AnchorError("CommandManager.execute_commands: stepping loop over cmd_executing not found")

    def _parse_sort(self, call: ast.Call, prog):
        key = next((k.value for k in call.keywords if k.arg == "key"), None)
        rev = next((k.value for k in call.keywords if k.arg == "reverse"), None)
        if rev is not None:
            if not isinstance(rev, ast.Constant):
                raise AnchorError("cmd_executing.sort(reverse=<non-constant>) not understood")
            self.reverse = bool(rev.value)
        if not (isinstance(key, ast.Lambda) and len(key.args.args) == 1):
            raise AnchorError(f"cmd_executing.sort key `{norm(key) if key is not None else None}` not understood")
        par = key.args.args[0].arg
        body, neg = key.body, False
        if isinstance(body, ast.UnaryOp) and isinstance(body.op, ast.Not):
            body, neg = body.operand, True
        if not (isinstance(body, ast.Compare) and len(body.ops) == 1 and isinstance(body.ops[0], (ast.In, ast.NotIn))
                and norm(body.left) == f"{par}.name" and isinstance(body.comparators[0], ast.Name)):
            raise AnchorError(f"cmd_executing.sort key `{norm(key)}` not understood")
        if isinstance(body.ops[0], ast.NotIn):
            neg = not neg
        const = prog.module(self.CM).constants.get(body.comparators[0].id) if hasattr(prog.module(self.CM), "constants") else None
        if const is None:
            const = prog.constant(f"{self.CM}:{body.comparators[0].id}")
        if not isinstance(const, (ast.List, ast.Tuple, ast.Set)) or not all(isinstance(e, ast.Constant) for e in const.elts):
            raise AnchorError(f"constant {body.comparators[0].id} is not a literal list of names")
        names = {e.value for e in const.elts}
        self.key = (lambda name, names=names, neg=neg: (name in names) != neg)
        self.key_text = norm(key)

    def precedes(self, inflight: str, new: str) -> bool:
        """Does an already executing command `inflight` get its step before the newly queued request `new` in the tick
        in which `new` starts?"""
        if self.key is not None:
            ka, kb = self.key(inflight), self.key(new)
            if ka != kb:
                return (ka < kb) != self.reverse
        return not self.newest_first

    def describe(self) -> str:
        s = "new requests are inserted at the front (newest first)" if self.newest_first else "new requests are appended (oldest first)"
        if self.key is not None:
            s += f", then stably sorted by {self.key_text}" + (" descending" if self.reverse else "")
        return s


class Explorer:
    def __init__(self, ctx, faults: bool, track=GHOSTS, max_pending: int = 1, exact: bool = False):
        self.exact = exact   # every driven in-flight command is stepped in every tick (the real scheduler); default: at most one,
        #                      possibly none (commands may stall - an over-approximation that is enough for K=1)
        self.ctx = ctx
        self.max_pending = max_pending   # user requests that may be accepted between two ticks (validated against the same state)
        self.b = RunStateBinding(ctx, faults, track)
        # A faulting call with a modelled effect (hwl.write_batch: hw := outs; interpreter.tick; _command_manager.tick) may also raise
        # *before* the effect. Only the exact scheduler explores that: combined with the coarse scheduler's stalling commands it
        # produces histories the real command loop cannot (a Restart that ends many ticks after it began).
        self.b.fault_before_effect = bool(exact and faults)
        self.it = Interp(self.b, max_depth=6)
        self.b.interp = self.it
        self.b.cmd_hook = self._cmd_hook
        self.policy = OrderPolicy(ctx.prog)
        ctx.extra["command_order_policy"] = self.policy.describe()
        self.faults = faults
        self.engine = self.b.engine
        self.tick = self.engine.methods["tick"]
        self.validate = self.engine.methods["_validate_control_command"]
        self.reach: dict = {}      # state -> (pred state, label)
        self.segments: dict[str, list] = {}
        self.edges = 0
        self.edge_watch = None      # optional predicate (s, t, label) -> bool; matching transitions are kept in self.watched
        self.watched: list = []

    def initial(self):
        st = self.ctx.prog.func("openpectus.lang.exec.tags:create_system_tags")
        init = {}
        for c in walk_no_nested(st.node):
            if isinstance(c, ast.Call) and call_attr(c) == "Tag" and c.args and norm(c.args[0]).startswith("SystemTagName."):
                m = norm(c.args[0]).split(".")[1]
                if m in TAGVARS:
                    v = [k.value for k in c.keywords if k.arg == "value"]
                    init[TAGVARS[m]] = v[0].value if v and isinstance(v[0], ast.Constant) else None
        if init.get("sys") != "Stopped" or init.get("mstatus") != "OK" or init.get("run_id", 0) is not None:
            raise AnchorError(f"create_system_tags initial values unexpected: {init}")
        d = {"started": False, "paused": False, "holding": False, "stopping": False, "sys": "Stopped", "run_id": None,
             "mstatus": "OK", "prev": None, "cap": "live", "outs": "live", "hw": "unknown", "clk": "run", "msched": False,
             "bad_restore": None, "cmd": None, "pend": None, "pend2": None, "pend3": None, "err": False, "orph": ()}
        for n in CONTROL:
            d[f"if_{n}"] = None
        for var, _ in self.b.snap.values():
            d[var] = None
        # flag initialisers of Engine.__init__ must be False / None
        ini = self.engine.methods["__init__"]
        for n in walk_no_nested(ini.node):
            tgt = n.target if isinstance(n, ast.AnnAssign) else (n.targets[0] if isinstance(n, ast.Assign) else None)
            if isinstance(tgt, ast.Attribute) and (tgt.attr in FLAGS or tgt.attr == "_prev_state") and n.value is not None:
                if not (isinstance(n.value, ast.Constant) and n.value.value in (False, None)):
                    raise AnchorError(f"Engine.__init__: {norm(n)} is not a False/None initialiser")
        return mk(d)

    # ---- acceptance of a user request
    def accepted(self, s, name: str) -> bool:
        d = sd(s)
        d["cmd"] = name
        res = self.it.run(self.validate, mk(d))
        kinds = {o[0] for o in res}
        if kinds == {"return"}:
            return True
        if kinds == {"raise"}:
            return False
        raise AnchorError(f"_validate_control_command is not deterministic on the domain for {name}: {kinds}")

    # ---- one command step
    def _finish(self, name, outcomes):
        out = []
        for o in outcomes:
            d = sd(o[-1])
            if o[0] == "yield":
                d[f"if_{name}"] = o[1]
            else:
                d[f"if_{name}"] = None
            d["orph"] = tuple(x for x in d["orph"] if x != name)   # a (re)driven command is attached to a request again
            out.append(mk(d))
        return out

    def step_new(self, s, name):
        f = self.b.cmd_cls[name].methods["_run"]
        return self._finish(name, self.it.run(f, s))

    def step_any(self, s, name):
        return self.step_new(s, name) if sd(s)[f"if_{name}"] is None else self.step_resume(s, name)

    def step_resume(self, s, name):
        f = self.b.cmd_cls[name].methods["_run"]
        node = sd(s)[f"if_{name}"]
        return self._finish(name, self.it.run(f, s, resume_after=node))

    def step_cancel(self, s, name):
        c = self.b.cmd_cls[name]
        cm = c.find_method("cancel")
        d = sd(s)
        d[f"if_{name}"] = None
        d["orph"] = tuple(x for x in d["orph"] if x != name)
        s2 = mk(d)
        if cm is None or cm.cls is not c:
            return [s2]
        return [o[-1] for o in self.it.run(cm, s2)]

    def _cmd_hook(self, s):
        """Effect of CommandManager.tick inside Engine.tick: at most one UOD command iteration and
        the command steps due in this tick."""
        bases = [s]
        d0 = sd(s)
        if d0["started"]:
            d1 = dict(d0)
            d1["outs"] = "live"     # an executing UOD command writes an output tag
            bases.append(mk(d1))
        out = []
        if self.exact:
            for b in bases:
                out += self._cmd_hook_exact(b)
            return list(dict.fromkeys(out))
        for b in bases:
            d = sd(b)
            seqs = []
            method_cmds = [n for n in CONTROL if d["msched"] and (d[f"if_{n}"] is None or n in d["orph"])]
            if d["pend"] is not None:
                p = d["pend"]
                d2 = dict(d)
                d2["pend"] = None
                b2 = mk(d2)
                # commands already executing that the extracted order policy steps *before* the new request in this
                # tick (none under newest-first; priority commands under a priority sort)
                starts2 = [b2]
                for n in CONTROL:
                    if n != p and d2[f"if_{n}"] is not None and n not in d2["orph"] and self.policy.precedes(n, p):
                        starts2 = [t for s2 in starts2 for t in (self.step_resume(s2, n) if sd(s2)[f"if_{n}"] is not None else [s2])]
                # newest request first: a command scheduled by the method in this tick runs before the user's
                firsts = [starts2] + [self.step_any(s2, m) for s2 in starts2 for m in method_cmds]
                p2 = d["pend2"]
                for group in firsts:
                    for g in group:
                        gs = [g]
                        if p2 is not None:
                            # a second request accepted in the same inter-tick gap: both were validated against the same state;
                            # it entered the executing list after the first one, so under newest-first it is stepped before it
                            dg = sd(g)
                            dg["pend2"] = None
                            g0 = mk(dg)
                            second_first = not self.policy.precedes(p, p2)
                            if second_first:
                                gs = self.step_any(g0, p2)
                            else:
                                gs = [g0]
                        for g1 in gs:
                            res = self.step_new(g1, p) if sd(g1)[f"if_{p}"] is None else self.step_resume(g1, p)
                            if p2 is not None and not second_first:
                                res = [t for r in res for t in self.step_any(r, p2)]
                            out += res
                continue
            out.append(b)
            for m in method_cmds:
                out += self.step_any(b, m)
            for n in CONTROL:
                if d[f"if_{n}"] is not None and n not in d["orph"]:
                    out += self.step_resume(b, n)
                    if n in ("Pause", "Hold"):
                        out += self.step_cancel(b, n)
        return list(dict.fromkeys(out))

    def _drive_rest(self, states, skip):
        """Step every driven in-flight command that has not been stepped in this tick yet, in every order."""
        import itertools
        out = []
        for st in states:
            d = sd(st)
            rest = [n for n in CONTROL if d[f"if_{n}"] is not None and n not in d["orph"] and n not in skip]
            if not rest:
                out.append(st)
                continue
            for perm in itertools.permutations(rest):
                cur = [st]
                for n in perm:
                    nxt = []
                    for c in cur:
                        dc = sd(c)
                        if dc[f"if_{n}"] is not None and n not in dc["orph"]:
                            nxt += self.step_resume(c, n)
                        else:
                            nxt.append(c)     # cancelled by a command stepped earlier in this tick
                    cur = nxt
                out += cur
        return list(dict.fromkeys(out))

    def _cmd_hook_exact(self, b):
        """CommandManager.tick as scheduled by execute_commands: requests that arrived since the last tick are moved to the
        front of the executing list (the newest first), then every executing request steps its command once."""
        d = sd(b)
        out = []
        method_cmds = [n for n in CONTROL if d["msched"] and (d[f"if_{n}"] is None or n in d["orph"])]
        p = d["pend"]
        arrivals = [x for x in (d["pend"], d.get("pend2"), d.get("pend3")) if x is not None]
        d2 = dict(d)
        for k in ("pend", "pend2", "pend3"):
            if k in d2:
                d2[k] = None
        b2 = mk(d2)
        for m in [None] + method_cmds:
            # each arriving request is moved to the front of the executing list (newest first: the method's request of this
            # tick, then the user's in reverse arrival order) unless the extracted order policy keeps an earlier one before it
            new: list = []
            for r in arrivals + ([m] if m is not None else []):
                front = [x for x in new if self.policy.precedes(x, r)]
                new = front + [r] + [x for x in new if x not in front]
            early = [n for n in CONTROL if p is not None and n not in new and d2[f"if_{n}"] is not None and n not in d2["orph"]
                     and self.policy.precedes(n, p)]
            cur = [b2]
            for n in early:
                cur = [t for c in cur for t in (self.step_resume(c, n) if sd(c)[f"if_{n}"] is not None else [c])]
            for n in new:
                cur = [t for c in cur for t in self.step_any(c, n)]
            out += self._drive_rest(cur, set(new) | set(early))
        if p is None:
            # a user may cancel a timed Pause / Hold through its run-log item instead of letting it step
            for n in ("Pause", "Hold"):
                if d[f"if_{n}"] is not None and n not in d["orph"]:
                    out += self._drive_rest(self.step_cancel(b2, n), {n})
        return out

    def _age(self, pre, post):
        """Ghost rule for C09 (applied at tick granularity)."""
        a, z = sd(pre), sd(post)
        # a capture still outstanding when a run boundary passes, or when a *new* pause begins without a new capture,
        # belongs to an earlier run / an earlier, already-undone pause
        if z["prev"] in ("live", "safe", "psafe") and a["prev"] == z["prev"] and (
                (not a["paused"] and z["paused"]) or a["started"] != z["started"]):
            z["prev"] = "old"
        if a["paused"] and not z["paused"] and z["started"] and a["started"] and z["outs"] == "psafe" and z["bad_restore"] is None \
                and "bad_restore" in self.b.track and all(a[f"if_{n}"] is None for n in ("Start", "Stop", "Restart")):
            # a pause of the running run ended and the safe values that pause had applied are still in place: nothing was restored
            z["bad_restore"] = "none"
        if not z["paused"] and z["outs"] == "psafe":
            z["outs"] = "safe"      # the pause that applied them is over: they are ordinary safe values now
        z["msched"] = False
        z["cmd"] = None
        return mk(z)

    def successors(self, s):
        out = []
        for o in self.it.run(self.tick, s):
            if o[0] == "return":
                out.append((self._age(s, o[-1]), "tick"))
        d = sd(s)
        if d["pend"] is None:
            for n in CONTROL:
                if self.accepted(s, n):
                    d2 = dict(d)
                    d2["pend"] = n
                    out.append((mk(d2), f"user:{n}"))
        elif self.max_pending >= 2 and d["pend2"] is None:
            for n in CONTROL:
                if n != d["pend"] and self.accepted(s, n):
                    d2 = dict(d)
                    d2["pend2"] = n
                    out.append((mk(d2), f"user:{n} (same tick gap)"))
        elif self.max_pending >= 3 and d.get("pend3") is None:
            for n in CONTROL:
                if n not in (d["pend"], d["pend2"]) and self.accepted(s, n):
                    d2 = dict(d)
                    d2["pend3"] = n
                    out.append((mk(d2), f"user:{n} (same tick gap)"))
        return out

    def explore(self, limit: int = 400000):
        s0 = self.initial()
        run = self.ctx.prog.func(f"{ENGINE}._run")
        starts = [o[-1] for o in self.it.run(run, s0) if o[0] == "return"]
        if not starts:
            raise AnchorError("Engine._run has no normal exit on the domain")
        work = []
        for s in starts:
            self.reach[s] = (None, "engine start")
            work.append(s)
        from collections import deque
        work = deque(work)
        while work:
            s = work.popleft()
            for (t, lab) in self.successors(s):
                self.edges += 1
                if self.edge_watch is not None and len(self.watched) < 64 and self.edge_watch(s, t, lab):
                    self.watched.append((s, t, lab))
                if t not in self.reach:
                    self.reach[t] = (s, lab)
                    work.append(t)
                    if len(self.reach) > limit:
                        raise AnchorError("run-state exploration exceeded its state limit")
        return starts

    def trace(self, s, maxlen=30):
        out = []
        cur = s
        while cur is not None and len(out) < maxlen:
            pred, lab = self.reach[cur]
            if lab == "tick" and pred is not None:
                # what the tick did (commands stepped inside a tick - scheduled by the method or in flight - are not
                # separate transitions of the model): name the commands that started / finished and the flags that changed
                a, z = sd(pred), sd(cur)
                notes = []
                for n in CONTROL:
                    k = f"if_{n}"
                    if a[k] is None and z[k] is not None:
                        notes.append(f"{n} begins, waits")
                    elif a[k] is not None and z[k] is None:
                        notes.append(f"{n} ends")
                if not a.get("err") and z.get("err"):
                    notes.append("method/hardware error -> set_error_state")
                for k in ("started", "paused", "holding", "sys"):
                    if a[k] != z[k]:
                        notes.append(f"{k}={z[k]}")
                if a["pend"] is None and not notes and a["msched"] is False:
                    pass
                if notes:
                    lab = "tick[" + ", ".join(notes) + "]"
            out.append(lab)
            cur = pred
        return out[::-1]


def show(s) -> str:
    d = sd(s)
    infl = [n for n in CONTROL if d[f"if_{n}"] is not None]
    return (f"started={d['started']} paused={d['paused']} holding={d['holding']} stopping={d['stopping']} sys={d['sys']} "
            f"run_id={d['run_id']} status={d['mstatus']} prev={d['prev']} outs={d['outs']} hw={d['hw']} clk={d['clk']} "
            f"inflight={infl} pend={d['pend']}")


class Explorers:
    """Union of several explorations of the same machine (different request bounds / schedulers). States of the first
    exploration come first, so a finding is reported with the shortest history the coarsest exploration has for it."""

    def __init__(self, *exs: Explorer):
        self.exs = exs
        self.reach: dict = {}
        self.owner: dict = {}

    def explore(self):
        r = None
        for e in self.exs:
            x = e.explore()
            r = r if r is not None else x
            for st, v in e.reach.items():
                if st not in self.reach:
                    self.reach[st] = v
                    self.owner[st] = e
        return r

    @property
    def edges(self):
        return sum(e.edges for e in self.exs)

    def trace(self, st, *a, **k):
        return self.owner.get(st, self.exs[0]).trace(st, *a, **k)

    def step_resume(self, st, name):
        return self.owner.get(st, self.exs[0]).step_resume(st, name)

    def __getattr__(self, name):
        return getattr(self.exs[0], name)
