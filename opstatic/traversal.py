"""Is a tree traversal complete? (used by C01 R01e)

`problems(ctx, call, f)` follows a call such as `program.get_all_nodes()` / `program.get_instructions()` into the function(s)
it resolves to, with the constant arguments of the call (and the defaults of the omitted ones) bound to the parameters, and
reports every place where the *class* of a node decides whether that node is part of the result:

  * an `if` / conditional whose test - after the known parameters have been folded away - still contains an `isinstance`
    test and that guards anything other than the descent into a node's children (a positive `isinstance(x, <container
    class>)` in front of the loop over the children, the recursive call or the `extend` is the structural guard every
    recursive traversal has and is accepted);
  * a comprehension on a reachable return path whose `if` clause tests the class;
  * a descent that the bound parameters switch off (`recursive=False`).

Returns that the bound parameters make unreachable are ignored, helper calls on the return path are followed (bounded).
"""
from __future__ import annotations

import ast

from .cfg import build
from .model import FuncInfo, norm, walk_no_nested
from .util import cfg_of, call_attr, local_single_defs

UNK = object()


def pe(e: ast.AST, consts: dict):
    """Partial evaluation of a boolean expression: (value | UNK, residual isinstance atoms as (text, positive))."""
    if isinstance(e, ast.Constant):
        return e.value, []
    if isinstance(e, ast.Name) and e.id in consts:
        return consts[e.id], []
    if isinstance(e, ast.UnaryOp) and isinstance(e.op, ast.Not):
        v, atoms = pe(e.operand, consts)
        return (UNK if v is UNK else (not v)), [(t, not p) for t, p in atoms]
    if isinstance(e, ast.BoolOp):
        is_and = isinstance(e.op, ast.And)
        atoms: list = []
        unknown = False
        for x in e.values:
            v, a = pe(x, consts)
            if v is UNK:
                unknown = True
                atoms += a
            elif bool(v) != is_and:
                return (not is_and), []      # short circuit: False in an `and`, True in an `or`
        return (UNK if unknown else is_and), atoms
    if isinstance(e, ast.Call) and isinstance(e.func, ast.Name) and e.func.id == "isinstance":
        return UNK, [(norm(e), True)]
    found = [(norm(c), True) for c in ast.walk(e) if isinstance(c, ast.Call) and isinstance(c.func, ast.Name) and c.func.id == "isinstance"]
    return UNK, found


def _bind(call: ast.Call | None, t: FuncInfo) -> dict:
    consts: dict = {}
    a = t.node.args
    params = [x.arg for x in a.args]
    off = 1 if (t.cls is not None and not t.is_static and params) else 0
    defaults = dict(zip(params[len(params) - len(a.defaults):], a.defaults))
    for k, v in defaults.items():
        if isinstance(v, ast.Constant):
            consts[k] = v.value
    if call is not None:
        for i, v in enumerate(call.args):
            if i + off < len(params):
                if isinstance(v, ast.Constant):
                    consts[params[i + off]] = v.value
                else:
                    consts.pop(params[i + off], None)
        for k in call.keywords:
            if k.arg:
                if isinstance(k.value, ast.Constant):
                    consts[k.arg] = k.value.value
                else:
                    consts.pop(k.arg, None)
    return consts


def _is_descent(st: ast.stmt, names: set[str]) -> bool:
    if isinstance(st, ast.For):
        return "children" in norm(st.iter) and all(_is_descent(x, names) or _is_collect_free(x) for x in st.body)
    if isinstance(st, ast.Expr) and isinstance(st.value, ast.Call):
        c = st.value
        nm = call_attr(c) or (c.func.id if isinstance(c.func, ast.Name) else "")
        if nm in names:
            return True
        if nm == "extend" and c.args and isinstance(c.args[0], ast.Call):
            return True
    return False


def _is_collect_free(st: ast.stmt) -> bool:
    return isinstance(st, (ast.Pass,)) or (isinstance(st, ast.Expr) and isinstance(st.value, ast.Call)
                                           and norm(st.value.func).split(".")[0] in ("logger", "logging"))


def problems(ctx, call: ast.Call, f: FuncInfo, depth: int = 0, seen: set | None = None) -> list[str]:
    seen = set() if seen is None else seen
    out: list[str] = []
    targets = ctx.res.resolve_call(call, f, cha=False)
    if not targets:
        return [f"`{norm(call)}` could not be resolved"]
    for t in targets:
        out += func_problems(ctx, t, _bind(call, t), depth, seen)
    return out


def func_problems(ctx, t: FuncInfo, consts: dict, depth: int = 0, seen: set | None = None) -> list[str]:
    seen = set() if seen is None else seen
    key = (id(t.node), tuple(sorted((k, repr(v)) for k, v in consts.items())))
    if key in seen or depth > 4:
        return []
    seen.add(key)
    out: list[str] = []
    defs = [t.node] + [n for n in ast.walk(t.node) if isinstance(n, ast.FunctionDef) and n is not t.node]
    names = {d.name for d in defs}
    for d in defs:
        for n in walk_no_nested(d):
            if isinstance(n, ast.If):
                v, atoms = pe(n.test, consts)
                body_descent = all(_is_descent(x, names) for x in n.body)
                if v is not UNK:
                    if not v and body_descent and n.body:
                        out.append(f"{t.short}: the descent into the children is switched off (`{norm(n.test)}` is false for this call)")
                    continue
                if not atoms:
                    continue
                if body_descent and not n.orelse and all(p for _, p in atoms):
                    continue        # structural guard of the recursion
                out.append(f"{t.short}: the class test `{norm(n.test)}` decides whether a node is part of the result")
    # returns reachable under the bound parameters
    g = cfg_of(t)

    def blocked(s, dd, lab):
        nd = g.nodes[s]
        if nd.kind == "test" and lab in ("T", "F"):
            v, _ = pe(nd.ast, consts)
            if v is not UNK:
                return bool(v) != (lab == "T")
        return False
    reach = g.search(None, lambda n: False, collect=True, blocked_edge=blocked)
    ldefs = local_single_defs(t)
    for nid in reach:
        nd = g.nodes[nid]
        if nd.kind != "stmt" or not isinstance(nd.ast, ast.Return) or nd.ast.value is None:
            continue
        val = nd.ast.value
        if isinstance(val, ast.Name) and val.id in ldefs:
            val = ldefs[val.id]
        out += _value_problems(ctx, val, t, consts, depth, seen)
    return out


def _value_problems(ctx, val: ast.AST, t: FuncInfo, consts: dict, depth: int, seen: set) -> list[str]:
    out: list[str] = []
    if isinstance(val, (ast.ListComp, ast.GeneratorExp, ast.SetComp)):
        for gen in val.generators:
            for cond in gen.ifs:
                v, atoms = pe(cond, consts)
                if v is UNK and atoms:
                    out.append(f"{t.short}: the comprehension filter `{norm(cond)}` leaves nodes out by their class")
            it = gen.iter
            if isinstance(it, ast.Name):
                it = local_single_defs(t).get(it.id, it)
            if isinstance(it, ast.Call):
                out += problems(ctx, it, t, depth + 1, seen)
    elif isinstance(val, ast.Call):
        nm = call_attr(val) or (val.func.id if isinstance(val.func, ast.Name) else "")
        if nm in ("list", "tuple", "sorted") and val.args:
            a0 = val.args[0]
            if isinstance(a0, ast.Name):
                a0 = local_single_defs(t).get(a0.id, a0)
            out += _value_problems(ctx, a0, t, consts, depth, seen)
        else:
            out += problems(ctx, val, t, depth + 1, seen)
    return out
