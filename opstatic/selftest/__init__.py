"""Sensitivity audit: every rule is re-run on in-memory variants of the analysed files.

mutants     - one rule instance broken by a small edit that keeps the code importable; the rule must
              report a *new* finding (compared with the unmodified tree) of the expected rule id.
equivalents - behaviour-preserving rewrites; the rule must report nothing new and must not abort.
Variants are applied as source overrides of opstatic.model.Program (nothing is written to /repo).
"""
from __future__ import annotations

import importlib
import os
import sys
import time
from concurrent.futures import ProcessPoolExecutor


def _roundtrip_overrides():
    """Every package source re-emitted by ast.unparse: comments dropped, lines renumbered, quotes/parentheses normalised."""
    import ast
    from ..model import REPO
    ov = {}
    for root, _, files in os.walk(os.path.join(REPO, "openpectus")):
        for f in files:
            if f.endswith(".py"):
                p = os.path.join(root, f)
                try:
                    ov[os.path.relpath(p, REPO)] = ast.unparse(ast.parse(open(p, encoding="utf-8").read()))
                except (SyntaxError, OSError):
                    pass
    return ov


def _rename_overrides():
    """Every assigned local of every function in the package (not parameters, not global/nonlocal names) alpha-renamed."""
    import ast
    from ..model import REPO
    class Renamer(ast.NodeTransformer):
        """alpha-rename the assigned locals of every function (not parameters, not global/nonlocal names)"""
        def visit_FunctionDef(self, node):
            # first transform nested functions
            self.generic_visit(node)
            params=set()
            for sub in ast.walk(node):
                if isinstance(sub,(ast.FunctionDef,ast.AsyncFunctionDef,ast.Lambda)):
                    a=sub.args
                    for x in a.posonlyargs+a.args+a.kwonlyargs: params.add(x.arg)
                    if a.vararg: params.add(a.vararg.arg)
                    if a.kwarg: params.add(a.kwarg.arg)
            banned=set(params)
            for sub in ast.walk(node):
                if isinstance(sub,(ast.Global,ast.Nonlocal)): banned|=set(sub.names)
                if isinstance(sub,(ast.FunctionDef,ast.AsyncFunctionDef,ast.ClassDef)) and sub is not node: banned.add(sub.name)
                if isinstance(sub,(ast.Import,ast.ImportFrom)):
                    for al in sub.names: banned.add((al.asname or al.name).split('.')[0])
            stored=set()
            for sub in ast.walk(node):
                if isinstance(sub,ast.Name) and isinstance(sub.ctx,(ast.Store,ast.Del)) and sub.id not in banned and not sub.id.startswith('__'):
                    stored.add(sub.id)
                if isinstance(sub,ast.ExceptHandler) and sub.name and sub.name not in banned: stored.add(sub.name)
            if not stored: return node
            m={n:n+'_rn' for n in stored if not n.endswith('_rn')}
            for sub in ast.walk(node):
                if isinstance(sub,ast.Name) and sub.id in m: sub.id=m[sub.id]
                if isinstance(sub,ast.ExceptHandler) and sub.name in m: sub.name=m[sub.name]
                if isinstance(sub,ast.MatchAs) and sub.name in m: sub.name=m[sub.name]
                if isinstance(sub,ast.MatchStar) and sub.name in m: sub.name=m[sub.name]
            return node
        visit_AsyncFunctionDef=visit_FunctionDef

    ov = {}
    for root, _, files in os.walk(os.path.join(REPO, "openpectus")):
        if os.sep + "test" in root:
            continue
        for f in files:
            if f.endswith(".py"):
                p = os.path.join(root, f)
                try:
                    t = Renamer().visit(ast.parse(open(p, encoding="utf-8").read()))
                    ast.fix_missing_locations(t)
                    new = ast.unparse(t)
                    compile(new, p, "exec")
                    ov[os.path.relpath(p, REPO)] = new
                except (SyntaxError, OSError):
                    pass
    return ov


def _rename_param_overrides():
    """Every positional parameter that no call site of a same-named function passes by keyword is renamed (p -> p_p):
    a behaviour-preserving edit that a rule matching parameter names (`node.`, `tag.`) would react to."""
    import ast
    from ..model import REPO
    trees = {}
    for root, _, files in os.walk(os.path.join(REPO, "openpectus")):
        for f in files:
            if f.endswith(".py"):
                p = os.path.join(root, f)
                try:
                    trees[p] = ast.parse(open(p, encoding="utf-8").read())
                except (SyntaxError, OSError):
                    pass
    by_kw: set = set()       # (callee name, keyword) pairs seen anywhere (tests included)
    for t in trees.values():
        for n in ast.walk(t):
            if isinstance(n, ast.Call):
                nm = n.func.attr if isinstance(n.func, ast.Attribute) else (n.func.id if isinstance(n.func, ast.Name) else None)
                for k in n.keywords:
                    if k.arg:
                        by_kw.add((nm, k.arg))
                        if nm is None:
                            by_kw.add((None, k.arg))

    class PR(ast.NodeTransformer):
        def visit_FunctionDef(self, node):
            self.generic_visit(node)
            if node.decorator_list or (node.name.startswith("__") and node.name.endswith("__")):
                return node
            a = node.args
            nested = set()
            for sub in ast.walk(node):
                if sub is not node and isinstance(sub, (ast.FunctionDef, ast.AsyncFunctionDef, ast.Lambda)):
                    for x in sub.args.posonlyargs + sub.args.args + sub.args.kwonlyargs:
                        nested.add(x.arg)
            m = {}
            for x in a.posonlyargs + a.args:
                if x.arg in ("self", "cls") or x.arg in nested or x.arg.endswith("_p"):
                    continue
                if (node.name, x.arg) in by_kw or (None, x.arg) in by_kw:
                    continue
                m[x.arg] = x.arg + "_p"
            # an override must keep the parameter names of the methods it overrides only if called by keyword: covered by by_kw
            for x in a.posonlyargs + a.args:
                if x.arg in m:
                    x.arg = m[x.arg]
            for sub in ast.walk(node):
                if isinstance(sub, ast.Name) and sub.id in m:
                    sub.id = m[sub.id]
            return node
        visit_AsyncFunctionDef = visit_FunctionDef
    ov = {}
    for p, t in trees.items():
        if os.sep + "test" in p:
            continue
        try:
            t2 = PR().visit(t)
            ast.fix_missing_locations(t2)
            new = ast.unparse(t2)
            compile(new, p, "exec")
            ov[os.path.relpath(p, REPO)] = new
        except SyntaxError:
            pass
    return ov


def _flip_overrides():
    """Every plain if/else (the else is not an elif chain) with its branches swapped and its test negated."""
    import ast
    from ..model import REPO

    class Flip(ast.NodeTransformer):
        def visit_If(self, n):
            self.generic_visit(n)
            if n.orelse and not (len(n.orelse) == 1 and isinstance(n.orelse[0], ast.If)) \
                    and not any(isinstance(x, ast.NamedExpr) for x in ast.walk(n.test)):
                t = n.test.operand if isinstance(n.test, ast.UnaryOp) and isinstance(n.test.op, ast.Not) \
                    else ast.UnaryOp(op=ast.Not(), operand=n.test)
                return ast.If(test=t, body=n.orelse, orelse=n.body)
            return n
    ov = {}
    for root, _, files in os.walk(os.path.join(REPO, "openpectus")):
        if os.sep + "test" in root:
            continue
        for f in files:
            if f.endswith(".py"):
                p = os.path.join(root, f)
                try:
                    t = Flip().visit(ast.parse(open(p, encoding="utf-8").read()))
                    ast.fix_missing_locations(t)
                    new = ast.unparse(t)
                    compile(new, p, "exec")
                    ov[os.path.relpath(p, REPO)] = new
                except (SyntaxError, OSError):
                    pass
    return ov


def _run_variant(args):
    prop, variant = args
    from ..model import Program, AnchorError, REPO
    from ..resolve import Resolver
    from ..report import Context
    if variant.get("roundtrip"):
        mod = importlib.import_module(f"opstatic.rules.{prop}")

        def fnd(ov):
            prog = Program(overrides=ov)
            ctx = Context(prop, "quick", prog, Resolver(prog))
            try:
                mod.run(ctx)
                ctx.check_floors(bool(ctx.findings))
            except AnchorError as ex:
                return "anchor: " + str(ex)[:150]
            return {(fd.rule, fd.function, fd.construct) for fd in ctx.findings}
        if variant["roundtrip"] == "flip":
            a, b = fnd({}), fnd(_flip_overrides())
            if a == b:
                return variant["id"], "silent", ""
            return variant["id"], "false-alarm", f"findings differ after swapping the branches of every if/else: {str(a)[:90]} vs {str(b)[:140]}"
        if variant["roundtrip"] == "params":
            a, b = fnd({}), fnd(_rename_param_overrides())
            if isinstance(a, set) and isinstance(b, set):
                a, b = sorted((r, fn) for r, fn, c in a), sorted((r, fn) for r, fn, c in b)
            if a == b:
                return variant["id"], "silent", ""
            return variant["id"], "false-alarm", f"findings differ after renaming every parameter not passed by keyword: {str(a)[:90]} vs {str(b)[:140]}"
        if variant["roundtrip"] == "rename":
            a, b = fnd({}), fnd(_rename_overrides())
            # construct texts legitimately contain local names: compare (rule, function) multisets
            if isinstance(a, set) and isinstance(b, set):
                a, b = sorted((r, fn) for r, fn, c in a), sorted((r, fn) for r, fn, c in b)
            if a == b:
                return variant["id"], "silent", ""
            return variant["id"], "false-alarm", f"findings differ after renaming every local variable: {str(a)[:90]} vs {str(b)[:140]}"
        a, b = fnd({}), fnd(_roundtrip_overrides())
        if a == b:
            return variant["id"], "silent", ""
        return variant["id"], "false-alarm", f"findings differ after re-formatting every source file: {str(a)[:80]} vs {str(b)[:80]}"
    path = os.path.join(REPO, variant["file"])
    try:
        src = open(path, encoding="utf-8").read()
    except OSError:
        return variant["id"], "skipped", "file missing"
    if src.count(variant["find"]) != 1:
        return variant["id"], "skipped", f"anchor text occurs {src.count(variant['find'])} times"
    new_src = src.replace(variant["find"], variant["replace"])
    overrides = {variant["file"]: new_src}
    for extra in variant.get("also", []):
        s2 = overrides.get(extra["file"]) or open(os.path.join(REPO, extra["file"]), encoding="utf-8").read()
        if s2.count(extra["find"]) != 1:
            return variant["id"], "skipped", "secondary anchor text missing"
        overrides[extra["file"]] = s2.replace(extra["find"], extra["replace"])
    mod = importlib.import_module(f"opstatic.rules.{prop}")

    def findings(ov):
        prog = Program(overrides=ov)
        if prog.parse_errors:
            return None, "variant does not parse: " + "; ".join(prog.parse_errors)
        ctx = Context(prop, "quick", prog, Resolver(prog))
        try:
            mod.run(ctx)
            ctx.check_floors(bool(ctx.findings))
        except AnchorError as ex:
            return "anchor", str(ex)
        return {(fd.rule, fd.function, fd.construct) for fd in ctx.findings}, ""
    base, msg = findings({})
    if base is None or base == "anchor":
        return variant["id"], "error", f"baseline: {msg}"
    var, msg = findings(overrides)
    if var is None:
        return variant["id"], "error", msg
    if variant["kind"] == "mutant":
        if var == "anchor":
            return variant["id"], "missed", f"analysis aborted instead of reporting: {msg[:150]}"
        new = var - base
        hit = [k for k in new if k[0].startswith(variant["expect"])]
        if hit:
            return variant["id"], "killed", f"{hit[0][0]} {hit[0][2][:90]}"
        return variant["id"], "missed", f"new findings: {sorted(k[0] for k in new)}"
    else:
        if var == "anchor":
            return variant["id"], "false-alarm", f"analysis aborted on an equivalent rewrite: {msg[:150]}"
        new = var - base
        if new:
            return variant["id"], "false-alarm", f"{sorted(new)[0]}"
        return variant["id"], "silent", ""


def run_audit(props: list[str] | None = None, jobs: int = 16) -> dict:
    from .variants import VARIANTS
    todo = [(v["prop"], v) for v in VARIANTS if props is None or v["prop"] in props]
    rules_dir = os.path.join(os.path.dirname(os.path.dirname(os.path.abspath(__file__))), "rules")
    allp = sorted(f[:-3] for f in os.listdir(rules_dir) if f.startswith("C") and f.endswith(".py"))
    for pr in allp:
        if props is None or pr in props:
            todo.append((pr, dict(id=f"{pr}-reformat-all", prop=pr, kind="equivalent", roundtrip=True, expect="", file="", find="",
                                  replace="", why="every source file re-emitted by ast.unparse (comments, line numbers, quoting change)")))
            todo.append((pr, dict(id=f"{pr}-rename-locals", prop=pr, kind="equivalent", roundtrip="rename", expect="", file="", find="",
                                  replace="", why="every assigned local variable of every function alpha-renamed")))
            todo.append((pr, dict(id=f"{pr}-rename-params", prop=pr, kind="equivalent", roundtrip="params", expect="", file="", find="",
                                  replace="", why="every parameter that is never passed by keyword renamed")))
            todo.append((pr, dict(id=f"{pr}-flip-branches", prop=pr, kind="equivalent", roundtrip="flip", expect="", file="", find="",
                                  replace="", why="every plain if/else with swapped branches and negated test")))
    t0 = time.time()
    results = []
    if todo:
        with ProcessPoolExecutor(max_workers=min(jobs, len(todo))) as ex:
            results = list(ex.map(_run_variant, todo))
    out = {"variants": len(todo), "wall_s": round(time.time() - t0, 2), "mutants_total": 0, "mutants_killed": 0,
           "equivalents_total": 0, "equivalents_silent": 0, "skipped": 0, "details": []}
    kinds = {v["id"]: v for _, v in todo}
    for vid, status, info in results:
        v = kinds[vid]
        if status == "skipped":
            out["skipped"] += 1
        elif v["kind"] == "mutant":
            out["mutants_total"] += 1
            out["mutants_killed"] += status == "killed"
        else:
            out["equivalents_total"] += 1
            out["equivalents_silent"] += status == "silent"
        out["details"].append({"id": vid, "kind": v["kind"], "status": status, "info": info, "what": v["why"]})
    return out


# ------------------------------------------------------------------------------------------------
# kept seeded changes (/verif/seeded/<id>/patch.diff) re-checked as source overrides
# ------------------------------------------------------------------------------------------------
def _seed_overrides(patch_path: str):
    """Apply a unified diff to scratch copies of the files it touches (outside /repo and /verif, removed at once);
    returns {relpath: new source} or (None, reason)."""
    import re
    import shutil
    import subprocess
    import tempfile
    from ..model import REPO
    txt = open(patch_path, encoding="utf-8").read()
    files = re.findall(r"^\+\+\+ b/(\S+)", txt, flags=re.M)
    if not files:
        return None, "no files in patch"
    tmp = tempfile.mkdtemp(prefix="opstatic-seed-")
    try:
        for rel in files:
            src = os.path.join(REPO, rel)
            if not os.path.exists(src):
                return None, f"{rel} missing"
            dst = os.path.join(tmp, rel)
            os.makedirs(os.path.dirname(dst), exist_ok=True)
            shutil.copy(src, dst)
        r = subprocess.run(["patch", "-p1", "--no-backup-if-mismatch", "-s", "-i", patch_path], cwd=tmp, capture_output=True, text=True)
        if r.returncode != 0:
            return None, "patch does not apply to the current tree: " + (r.stdout + r.stderr).strip()[:120]
        return {rel: open(os.path.join(tmp, rel), encoding="utf-8").read() for rel in files}, ""
    finally:
        shutil.rmtree(tmp, ignore_errors=True)


def _run_seed(args):
    prop, seed_id, patch_path = args
    from ..model import Program, AnchorError
    from ..resolve import Resolver
    from ..report import Context
    ov, why = _seed_overrides(patch_path)
    if ov is None:
        return seed_id, "skipped", why
    mod = importlib.import_module(f"opstatic.rules.{prop}")

    def findings(o):
        prog = Program(overrides=o)
        if prog.parse_errors:
            return None, "does not parse"
        ctx = Context(prop, "quick", prog, Resolver(prog))
        try:
            mod.run(ctx)
            ctx.check_floors(bool(ctx.findings))
        except AnchorError as ex:
            return "anchor", str(ex)
        return {(fd.rule, fd.function, fd.construct) for fd in ctx.findings}, ""
    base, msg = findings({})
    if base is None or base == "anchor":
        return seed_id, "error", f"baseline: {msg}"
    var, msg = findings(ov)
    if var is None:
        return seed_id, "error", msg
    if var == "anchor":
        return seed_id, "missed", f"analysis aborted instead of reporting: {msg[:150]}"
    new = sorted(var - base)
    if new:
        return seed_id, "detected", f"{new[0][0]} {new[0][2][:100]}"
    return seed_id, "missed", "no new finding"


def run_seeds(props: list[str] | None = None, jobs: int = 16) -> dict:
    import json
    from ..report import VERIF
    root = os.path.join(VERIF, "seeded")
    todo = []
    if os.path.isdir(root):
        for d in sorted(os.listdir(root)):
            mp, pp = os.path.join(root, d, "meta.json"), os.path.join(root, d, "patch.diff")
            if os.path.exists(mp) and os.path.exists(pp):
                meta = json.load(open(mp))
                prop = meta.get("property")
                if meta.get("superseded_by_fix") and not meta.get("now_breaks"):
                    continue   # the change no longer breaks the property on the repaired tree (its demonstration passes)
                if meta.get("now_breaks"):
                    # after a repair of the tree the change no longer breaks the property it was written for, but (shown by a
                    # run recorded in the meta file) still breaks another one: it must be silent on the first, detected on the second
                    prop = meta["now_breaks"]
                if props is None or prop in props:
                    todo.append((prop, d, pp))
    t0 = time.time()
    results = []
    if todo:
        with ProcessPoolExecutor(max_workers=min(jobs, len(todo))) as ex:
            results = list(ex.map(_run_seed, todo))
    return {"seeds_total": len(todo), "seeds_detected": sum(1 for r in results if r[1] == "detected"),
            "seeds_skipped": sum(1 for r in results if r[1] == "skipped"), "wall_s": round(time.time() - t0, 2),
            "details": [{"seed": r[0], "status": r[1], "info": r[2]} for r in results]}


def _base_clean(prop: str):
    import subprocess
    r = subprocess.run([sys.executable, "-m", "opstatic.run", prop, "--tier", "quick", "--no-evidence"], cwd=os.path.dirname(os.path.dirname(
        os.path.dirname(os.path.abspath(__file__)))), capture_output=True, text=True)
    return prop, r.returncode, [ln for ln in r.stdout.splitlines() if ln.startswith(("VIOLATION", "ANALYSIS-ERROR", "["))][:3]


def main(argv=None) -> int:
    props = (argv or sys.argv[1:]) or None
    bad = 0
    # the audit compares findings of a variant with those of today's tree, so it is blind to a rule that already fires on today's
    # tree: check first that every property's quick run is clean (exit 0) there
    from .variants import VARIANTS as _V
    all_props = props or sorted({v["prop"] for v in _V})
    with ProcessPoolExecutor(max_workers=16) as ex:
        for prop, rc, lines in ex.map(_base_clean, all_props):
            if rc != 0:
                bad += 1
                print(f"BAD {prop:<34} base-tree   exit {rc}     {' | '.join(lines)[:160]}")
    res = run_audit(props)
    for d in res["details"]:
        flag = "ok " if d["status"] in ("killed", "silent") else ("-- " if d["status"] == "skipped" else "BAD")
        if flag == "BAD":
            bad += 1
        print(f"{flag} {d['id']:<34} {d['kind']:<10} {d['status']:<11} {d['info'][:120]}")
    print(f"mutants killed {res['mutants_killed']}/{res['mutants_total']}, equivalents silent {res['equivalents_silent']}/"
          f"{res['equivalents_total']}, skipped {res['skipped']}, {res['wall_s']}s")
    sr = run_seeds(props)
    for d in sr["details"]:
        flag = "ok " if d["status"] == "detected" else ("-- " if d["status"] == "skipped" else "BAD")
        bad += flag == "BAD"
        print(f"{flag} seed {d['seed']:<36} {d['status']:<9} {d['info'][:120]}")
    print(f"seeded changes detected {sr['seeds_detected']}/{sr['seeds_total']}, skipped {sr['seeds_skipped']}, {sr['wall_s']}s")
    return 1 if bad else 0
