"""Variants for the sensitivity audit (see __init__). `find` must occur exactly once in `file`."""

AGG = "openpectus/aggregator/aggregator.py"
IMPL = "openpectus/engine/internal_commands_impl.py"
ENG = "openpectus/engine/engine.py"
PI = "openpectus/lang/exec/pinterpreter.py"
CM = "openpectus/engine/command_manager.py"
HR = "openpectus/engine/hardware_recovery.py"
TAGS = "openpectus/lang/exec/tags.py"
TI = "openpectus/lang/exec/tags_impl.py"
AN = "openpectus/lang/exec/analyzer.py"
AST = "openpectus/lang/model/ast.py"
MM = "openpectus/engine/method_manager.py"
RLOG = "openpectus/lang/exec/runlog.py"
CSVG = "openpectus/aggregator/csv_generator.py"


def M(id, prop, file, find, replace, expect, why, **kw):
    return dict(id=id, prop=prop, file=file, find=find, replace=replace, expect=expect, why=why, kind="mutant", **kw)


def E(id, prop, file, find, replace, why, **kw):
    return dict(id=id, prop=prop, file=file, find=find, replace=replace, expect="", why=why, kind="equivalent", **kw)


VARIANTS = [
    # ---------------------------------------------------------------- C37
    M("C37-no-pop", "C37", AGG, "user_id = self.dead_man_switch_user_ids.pop(subscriber_id, None)",
      "user_id = self.dead_man_switch_user_ids.get(subscriber_id, None)", "R37a", "entry read but not removed"),
    M("C37-threshold", "C37", AGG, "user_has_other_dead_man_switch = len(other_dead_man_switches) > 0",
      "user_has_other_dead_man_switch = len(other_dead_man_switches) > 1", "R37b", "threshold counts the removed entry"),
    M("C37-other-writer", "C37", AGG, "        engine_data.active_users[user_id] = (Mdl.ActiveUser(",
      "        self.dead_man_switch_user_ids[user_id] = user_id\n        engine_data.active_users[user_id] = (Mdl.ActiveUser(", "R37d",
      "map written from register_active_user"),
    E("C37-rename-local", "C37", AGG, "        other_dead_man_switches = [other_user_id for other_user_id in self.dead_man_switch_user_ids.values() if other_user_id == user_id]\n        user_has_other_dead_man_switch = len(other_dead_man_switches) > 0\n        if (user_has_other_dead_man_switch):",
      "        others = [u for u in self.dead_man_switch_user_ids.values() if u == user_id]\n        if len(others) >= 1:", "renamed locals, >= 1 instead of > 0"),
    # ---------------------------------------------------------------- C30
    M("C30-dup-fallthrough", "C30", AGG, "                logger.warning(\"Event run_started occurred with same id as the current run. Ignoring\")\n                return\n",
      "                logger.warning(\"Event run_started occurred with same id as the current run. Ignoring\")\n", "R30a", "duplicate branch falls through to create_plot_log"),
    M("C30-no-reset", "C30", AGG, "        # clear current run_data\n        engine_data.reset_run()\n", "        # clear current run_data\n", "R30b", "run not reset after storing"),
    M("C30-store-on-disconnect", "C30", AGG, "            if engine_data.has_run():\n                self.publish_engine_disconnected_notification(engine_id)",
      "            if engine_data.has_run():\n                RecentRunRepository(database.scoped_session()).store_recent_run(engine_data)\n                self.publish_engine_disconnected_notification(engine_id)",
      "R30c", "recent run also stored on disconnect"),
    E("C30-early-return-style", "C30", AGG, "        if not engine_data.has_run():\n            logger.warning(\"No engine run_data available on run_stopped for engine \" + engine_id)\n            return\n",
      "        has_run = engine_data.has_run()\n        if not has_run:\n            logger.warning(\"No engine run_data available on run_stopped for engine \" + engine_id)\n            return\n",
      "has_run() through a single-assignment local"),
    # ---------------------------------------------------------------- C31
    M("C31-no-lock", "C31", AGG, "        async with lock:\n            return await self._save_method(engine_id, method, user)",
      "        return await self._save_method(engine_id, method, user)", "R31a", "lock removed"),
    M("C31-fresh-lock", "C31", AGG, "        lock = self._save_method_locks.setdefault(engine_id, asyncio.Lock())", "        lock = asyncio.Lock()", "R31a",
      "a fresh lock per call serialises nothing"),
    M("C31-double-bump", "C31", AGG, "        new_method.version += 1\n", "        new_method.version += 2\n", "R31c", "version bumped by two"),
    M("C31-check-dropped", "C31", AGG, "        if existing_version != version_to_overwrite:\n            raise AggregatorCallerException(",
      "        if existing_version > version_to_overwrite:\n            raise AggregatorCallerException(", "R31b", "stale saves accepted"),
    # ---------------------------------------------------------------- C38
    M("C38-takeover", "C38", "openpectus/aggregator/aggregator_message_handlers.py",
      "        if self.aggregator.dispatcher.has_connected_engine_id(engine_id):", "        if register_engine_msg.ignore_version_error and self.aggregator.dispatcher.has_connected_engine_id(engine_id):",
      "R38b", "takeover guard disabled"),
    M("C38-one-field", "C38", AGG, "return quote(register_engine_msg.computer_name + \"_\" + register_engine_msg.uod_name, \"\")",
      "return quote(register_engine_msg.uod_name, \"\")", "R38a", "id ignores the computer name"),
    # ---------------------------------------------------------------- C28
    M("C28-no-restore", "C28", AGG, "        self._try_restore_reconnected_engine_data(engine_data)\n\n        asyncio.create_task", "        asyncio.create_task", "R28a", "restore dropped"),
    M("C28-delete-before-store", "C28", AGG, "            with database.create_scope():\n                repo = RecentEngineRepository(database.scoped_session())\n                repo.store_recent_engine(engine_data)\n            logger.info(\"Recent engine saved\")",
      "            logger.info(\"Recent engine saved\")", "R28b", "engine dropped without storing"),
    M("C28-new-run-id", "C28", AGG, "                engine_data.run_data = Mdl.RunData.empty(run_id=run_id, run_started=run_started)",
      "                engine_data.run_data = Mdl.RunData.empty(run_id=str(time.time()), run_started=run_started)", "R28a", "run continues under another id"),
    # ---------------------------------------------------------------- C16
    M("C16-tick-number", "C16", PI, "            mark_tag.set_value(node.name, self._tick_time)", "            mark_tag.set_value(node.name, self._tick_number)", "R16a", "tick number as time"),
    M("C16-wall-clock", "C16", ENG, "            tag.set_value(tag_value, self._tick_time)", "            tag.set_value(tag_value, time.time())", "R16a", "wall clock in read_process_image",
      also=[]),
    M("C16-monotonic", "C16", ENG, "        clock.set_value(tick_time, tick_time)", "        clock.set_value(tick_time, increment_time)", "R16a", "duration as time"),
    M("C16-no-store", "C16", TAGS, "        if val != self.value:\n            self.value = val\n            self.tick_time = tick_time\n",
      "        if val != self.value:\n            self.value = val\n", "R16b", "set_value forgets to store the time"),
    E("C16-alias", "C16", ENG, "            tag.set_value(tag_value, self._tick_time)", "            now = self._tick_time\n            tag.set_value(tag_value, now)", "time through a local alias"),
    # ---------------------------------------------------------------- C36
    M("C36-direct-write", "C36", TI, "        self.set_value(self.totalizer.as_float() - self.v0, tick_time)", "        self.value = self.totalizer.as_float() - self.v0", "R36a",
      "accumulator writes value directly"),
    M("C36-clear-early", "C36", ENG, "        for tag_name in self._uod_listener.changes:\n            tag = self.uod.tags[tag_name]\n            self.tag_updates.put(tag)\n        self._uod_listener.clear_changes()",
      "        self._uod_listener.clear_changes()\n        for tag_name in self._uod_listener.changes:\n            tag = self.uod.tags[tag_name]\n            self.tag_updates.put(tag)", "R36b", "listener cleared before draining"),
    M("C36-no-listener", "C36", TAGS, "        self.tags[str(tag.name)] = tag\n        tag.add_listener(self)", "        self.tags[str(tag.name)] = tag", "R36b", "collection does not listen to added tags"),
    M("C36-list-report", "C36", "openpectus/engine/engine_message_builder.py", "                tags[tag.name] = to_model_tag(tag)", "                tags[id(tag)] = to_model_tag(tag)", "R36c", "report no longer keyed by name"),
    # ---------------------------------------------------------------- C23
    M("C23-issue-raises", "C23", HR, "        except HardwareLayerException:\n            self.error_read_write()\n            return self._get_last_known_good_values([r])[0]",
      "        except HardwareLayerException:\n            self.error_read_write()\n            raise", "R23c", "read error not masked"),
    M("C23-no-status", "C23", HR, "    def on_error(self):\n        logger.debug(\"on_error fired\")\n        self._update_connection_status()", "    def on_error(self):\n        logger.debug(\"on_error fired\")", "R23b",
      "status update dropped on Reconnect->Error"),
    E("C23-issue-no-status", "C23", HR, "    def on_issue(self):\n        logger.debug(\"on_issue fired\")\n        self._update_connection_status()", "    def on_issue(self):\n        logger.debug(\"on_issue fired\")",
      "OK->Issue keeps status Connected, so dropping the redundant update changes nothing observable"),
    M("C23-skip-state", "C23", HR, "                self.state = ErrorRecoveryState.Reconnect\n                self.on_reconnect()", "                self.state = ErrorRecoveryState.Error\n                self.on_error()", "R23a",
      "Issue jumps to Error"),
    M("C23-status-wrong", "C23", HR, "        if self.state in [ErrorRecoveryState.Disconnected, ErrorRecoveryState.Error]:\n            value = ConnectionStatusEnum.Disconnected",
      "        if self.state in [ErrorRecoveryState.Disconnected, ErrorRecoveryState.Error, ErrorRecoveryState.Reconnect]:\n            value = ConnectionStatusEnum.Disconnected", "R23b", "Reconnect reported as Disconnected"),
    M("C23-lkg-on-error", "C23", HR, "        except HardwareLayerException:\n            self.error_read_write()\n            return self._get_last_known_good_values(registers)",
      "        except HardwareLayerException:\n            self.error_read_write()\n            return [None for _ in registers]", "R23d", "masked batch read returns None instead of last known good"),
    # ---------------------------------------------------------------- C24
    M("C24-keep-superseded", "C24", HR, "                if register.name in except_names:\n                    # a newer value was just written for this register so the pending value is obsolete\n                    del self.pending_writes[register]\n                    continue",
      "                if register.name in except_names:\n                    continue", "R24a", "superseded entry kept"),
    M("C24-no-clear", "C24", HR, "        logger.debug(f\"RW error, state: {self.state}\")\n        self.last_success_writes.clear()", "        logger.debug(f\"RW error, state: {self.state}\")", "R24c",
      "last_success_writes survives an error"),
    M("C24-drop-on-fail", "C24", HR, "            if self.state == ErrorRecoveryState.Error:\n                return\n            self.pending_writes[r] = value\n\n", "            return\n\n", "R24d", "failed single write not buffered"),
    M("C24-filter-drop", "C24", HR, "                    else:\n                        # old value is not numeric so the value was definitely modified\n                        out_values.append(value)\n                        out_registers.append(register)\n",
      "", "R24f", "float replacing non-numeric dropped"),
    # ---------------------------------------------------------------- C19
    M("C19-fallthrough", "C19", AN, "                    return\n            self.add_item(AnalyzerItem(\n                \"UndefinedTag\",\n                \"Undefined tag\",\n                node,\n                AnalyzerItemType.ERROR,\n                f\"The tag name '{tag_name}' is not valid\",\n                start=node.tag_operator_value.stripped_lhs_range.start.character,\n                end=node.tag_operator_value.stripped_lhs_range.end.character,\n            ))\n            return\n\n        if condition.op == \"\":",
      "                    return\n\n        if condition.op == \"\":", "R19", "undefined tag falls through to tags.get"),
    M("C19-both-length-end", "C19", AN, "                \"A condition is required\",\n                start=len(node.instruction_part) + 1,\n                end=len(node.instruction_part) + 1000  # Valid way to express the whole line",
      "                \"A condition is required\",\n                start=len(node.instruction_part) + 1,\n                length=5,\n                end=len(node.instruction_part) + 1000  # Valid way to express the whole line", "R19c", "AnalyzerItem gets both length and end"),
    M("C19-warning-only", "C19", AN, "            self.add_item(AnalyzerItem(\n                \"UndefinedCommand\",\n                \"Undefined command\",\n                node,\n                AnalyzerItemType.ERROR,\n                f\"The command name '{name}' is not defined.\",",
      "            self.add_item(AnalyzerItem(\n                \"UndefinedCommand\",\n                \"Undefined command\",\n                node,\n                AnalyzerItemType.WARNING,\n                f\"The command name '{name}' is not defined.\",", "R19b", "undefined command only a warning"),
    # ---------------------------------------------------------------- C06
    M("C06-unhold-running", "C06", IMPL, "        e._runstate_holding = False\n        if not e._runstate_paused:  # Pause takes precedence\n            e._system_tags[SystemTagName.SYSTEM_STATE].set_value(SystemStateEnum.Running, e._tick_time)",
      "        e._runstate_holding = False\n        e._system_tags[SystemTagName.SYSTEM_STATE].set_value(SystemStateEnum.Running, e._tick_time)", "R06a", "Unhold sets Running while paused"),
    M("C06-gate-widened", "C06", ENG, "            if self._runstate_holding:\n                raise ValueError(\"Hold command is not valid when system state is on hold\")\n", "", "R06b", "Hold accepted while holding"),
    M("C06-stop-keeps-flag", "C06", IMPL, "            e._runstate_paused = False\n            e._runstate_holding = False\n            e._runstate_stopping = False\n            e._prev_state = None\n            e._system_tags[SystemTagName.METHOD_STATUS]",
      "            e._runstate_holding = False\n            e._runstate_stopping = False\n            e._prev_state = None\n            e._system_tags[SystemTagName.METHOD_STATUS]", "R06", "Stop forgets the paused flag"),
    M("C06-restart-no-runid", "C06", IMPL, "            run_id = e.set_run_id()\n            e._system_tags[SystemTagName.METHOD_STATUS].set_value(MethodStatusEnum.OK, e._tick_time)\n            e._system_tags[SystemTagName.RUN_TIME]",
      "            run_id = \"x\"\n            e._system_tags[SystemTagName.METHOD_STATUS].set_value(MethodStatusEnum.OK, e._tick_time)\n            e._system_tags[SystemTagName.RUN_TIME]", "R06a", "Restart does not renew the run id"),
    # ---------------------------------------------------------------- C07
    M("C07-process-time-paused", "C07", ENG, "        if sys_state.get_value() == SystemStateEnum.Running:\n            process_time.set_value", "        if sys_state.get_value() != SystemStateEnum.Stopped:\n            process_time.set_value", "R07a",
      "Process Time advances while paused"),
    M("C07-restart-clocks", "C07", IMPL, "            e._system_tags[SystemTagName.RUN_TIME].set_value(0.0, e._tick_time)\n            e._system_tags[SystemTagName.PROCESS_TIME].set_value(0.0, e._tick_time)\n            e.tracking.enable()\n            e.emitter.emit_on_start(run_id)\n\n            e._system_tags[SystemTagName.SYSTEM_STATE]",
      "            e.tracking.enable()\n            e.emitter.emit_on_start(run_id)\n\n            e._system_tags[SystemTagName.SYSTEM_STATE]", "R07c", "Restart does not zero the clocks"),
    M("C07-pause-no-signal", "C07", IMPL, "            e._apply_safe_state()\n        e.emitter.emit_on_runstate_change(RunStateChange.PAUSE)\n", "            e._apply_safe_state()\n", "R07b", "Pause emits no signal"),
    # ---------------------------------------------------------------- C08
    M("C08-stop-order", "C08", IMPL, "            e.clear_run_id()\n            e.write_process_image()\n            e._runstate_started = False", "            e.clear_run_id()\n            e._runstate_started = False\n            e.write_process_image()", "R08b",
      "Stop clears started before writing the safe image"),
    M("C08-pause-no-safe", "C08", IMPL, "        if e._prev_state is None:\n            e._prev_state = e._apply_safe_state()\n        else:\n            # already paused - keep the state captured by the first pause\n            e._apply_safe_state()\n",
      "        if e._prev_state is None:\n            e._prev_state = e.tags_as_readonly()\n", "R08c", "Pause captures but applies no safe state"),
    M("C08-write-unguarded", "C08", ENG, "        if not self._runstate_started:\n            return\n\n        hwl = self.uod.hwl\n        register_values = []", "        hwl = self.uod.hwl\n        register_values = []", "R08b",
      "hardware written without a run (fixes R08a but breaks 'no other value while no run')"),
    # ---------------------------------------------------------------- C09
    M("C09-stop-keeps-capture", "C09", IMPL, "            e._runstate_stopping = False\n            e._prev_state = None\n            e._system_tags[SystemTagName.METHOD_STATUS]", "            e._runstate_stopping = False\n            e._system_tags[SystemTagName.METHOD_STATUS]",
      "R09a", "Stop keeps the captured state"),
    M("C09-recapture", "C09", IMPL, "        if e._prev_state is None:\n            e._prev_state = e._apply_safe_state()\n        else:\n            # already paused - keep the state captured by the first pause\n            e._apply_safe_state()\n",
      "        e._prev_state = e._apply_safe_state()\n", "R09b", "second Pause re-captures"),
    M("C09-unpause-keeps", "C09", IMPL, "            e._apply_state(e._prev_state)\n            e._prev_state = None", "            e._apply_state(e._prev_state)", "R09", "Unpause does not consume the capture"),
    # ---------------------------------------------------------------- C10
    M("C10-no-finalize", "C10", ENG, "        self._command_manager.cancel_commands(source_command_name, finalize=True)", "        self._command_manager.cancel_commands(source_command_name, finalize=False)", "R10a", "commands cancelled but not finalized"),
    M("C10-no-clear-runid", "C10", IMPL, "            e.emitter.emit_on_stop()\n\n            e.clear_run_id()\n\n            # _stop_interpreter() restarts command_manager", "            e.emitter.emit_on_stop()\n\n            # _stop_interpreter() restarts command_manager", "R10a",
      "Restart does not clear the run id"),
    M("C10-archiver-super", "C10", "openpectus/engine/archiver.py", "    def on_stop(self):\n        super().on_stop()\n", "    def on_stop(self):\n", "R10b", "ArchiverTag.on_stop without super"),
    # ---------------------------------------------------------------- C11
    M("C11-no-overlap-cancel", "C11", CM, "                    if c.name in overlap_list and cmd_request.name in overlap_list:\n                        self._cancel_command(c)", "                    if c.name in overlap_list and cmd_request.name in overlap_list:\n                        pass", "R11a",
      "overlapping command not cancelled"),
    M("C11-reinit", "C11", CM, "            if not uod_command.is_initialized():\n                uod_command.initialize()", "            if True:\n                uod_command.initialize()", "R11b", "initialize every tick"),
    M("C11-leak", "C11", CM, "            self._finalize_command(cmd_request, uod_command)\n            raise ValueError(f\"Invalid arguments for command '{cmd_request.name}'\")", "            self._executing_command_done(cmd_request)\n            raise ValueError(f\"Invalid arguments for command '{cmd_request.name}'\")",
      "R11c", "instance leaks on invalid args"),
    M("C11-no-dispose", "C11", "openpectus/lang/exec/uod.py", "        if self.finalize_fn is not None:\n            self.finalize_fn()\n\n        self.context.dispose_command(self)", "        if self.finalize_fn is not None:\n            self.finalize_fn()", "R11d", "finalize does not dispose"),
    # ---------------------------------------------------------------- C12
    M("C12-force-logs", "C12", CM, "            raise ValueError(f\"Cannot force instruction {instance_id=}, no runtime record found\")", "            logger.error(f\"Cannot force instruction {instance_id=}, no runtime record found\")", "R12b", "force of unknown id only logged"),
    M("C12-wait-ignores-force", "C12", PI, "            while self._tick_time < duration_end_time and not node.forced:", "            while self._tick_time < duration_end_time:", "R12c", "Wait ignores force"),
    M("C12-record-refused", "C12", "openpectus/lang/exec/tracking.py", "            if not node.force():\n                logger.error(f\"Force failed for node {node}\")\n                raise ValueError(f\"Force failed for node {node}\")",
      "            if not node.force():\n                logger.error(f\"Force failed for node {node}\")", "R12a", "refused force still recorded"),
    E("C04-watch-cancel-via-helper", "C04", PI, "            while not node.activated:\n                if node.cancelled:\n                    logger.debug(f\"Node {node} cancelled while awaiting activation\")\n                    self.sep.pop()\n                    return\n                self._try_activate_node(node)",
      "            while not node.activated:\n                self._try_activate_node(node)", "the loop's explicit cancel test removed: _try_activate_node still never activates a cancelled node, so the body never runs"),
    # ---------------------------------------------------------------- C01
    M("C01-drop-key", "C01", AST, "        state[\"block_ended\"] = self.block_ended  # type: ignore\n", "", "R01a", "block_ended not extracted"),
    M("C01-uncarried-state", "C01", PI, "                node.wait_start_time = self._tick_time", "                node.wait_start_time = self._tick_time\n                node.has_argument = True", "R01a", "interpreter writes an attribute that is not carried"),
    M("C01-no-validate", "C01", MM, "        self._validate_liveedit_method(new_method)\n\n        logger.debug(\"Applying hotswap visitor to create merged state\")", "        logger.debug(\"Applying hotswap visitor to create merged state\")", "R01d", "merge without validation"),
    M("C01-validate-started-only", "C01", MM, "        for new_line in new_method.lines:\n            if new_line.id in method_state.executed_line_ids or new_line.id in method_state.started_line_ids:", "        for new_line in new_method.lines:\n            if new_line.id in method_state.started_line_ids:", "R01d", "executed lines may be edited"),
    # ---------------------------------------------------------------- C02
    M("C02-no-visitor", "C02", PI, "    def visit_NotifyNode(self, node: p.NotifyNode) -> NodeGenerator:", "    def visit_Notify_Node(self, node: p.NotifyNode) -> NodeGenerator:", "R02a", "visitor renamed",
      also=[dict(file="openpectus/lang/exec/visitor.py", find="    def visit_NotifyNode(self, node: p.NotifyNode) -> NodeGenerator:\n        yield VisitResult.EndTick\n", replace="")]),
    M("C02-index-early", "C02", PI, "            child_result = self.visit(child)\n            self.sep.push(node, f\"child.{node.child_index}\")\n            yield from child_result\n            self.sep.pop()\n            node.child_index += 1",
      "            child_result = self.visit(child)\n            self.sep.push(node, f\"child.{node.child_index}\")\n            node.child_index += 1\n            yield from child_result\n            self.sep.pop()", "R02b", "child counted before it finished"),
    M("C02-pass-trailing-blank", "C02", PI, "        while node.has_only_trailing_whitespace:\n            yield VisitResult.EndTick\n\n        node.started = True\n        # if self.sep.peek().node_key == node.key:\n        #     self.sep.pop()\n        yield VisitResult.ContinueTick\n\n        node.completed = True\n        yield VisitResult.ContinueTick\n\n\n    def visit_MarkNode",
      "        node.started = True\n        yield VisitResult.ContinueTick\n\n        node.completed = True\n        yield VisitResult.ContinueTick\n\n\n    def visit_MarkNode", "R02b", "trailing blank passed"),
    M("C02-new-interp-cmd", "C02", AST, "    instruction_names = [\"Base\", \"Increment run counter\", \"Run counter\", \"Wait\"]", "    instruction_names = [\"Base\", \"Increment run counter\", \"Run counter\", \"Wait\", \"Sleep\"]", "R02a", "interpreter command without handler"),
    # ---------------------------------------------------------------- C03
    M("C03-hour-60", "C03", "openpectus/lang/exec/regex.py", "        seconds = 60 * 60 * time", "        seconds = 60 * time", "R03a", "h counted as 60 s"),
    M("C03-le", "C03", PI, "                    '<', time_value, time_unit,\n                    threshold_value, threshold_unit)", "                    '<=', time_value, time_unit,\n                    threshold_value, threshold_unit)", "R03b", "< became <="),
    M("C03-swapped", "C03", PI, "                    '<', time_value, time_unit,\n                    threshold_value, threshold_unit)", "                    '<', threshold_value, threshold_unit,\n                    time_value, time_unit)", "R03b", "operands swapped"),
    M("C03-scope-block-swapped", "C03", "openpectus/lang/exec/uod.py", "        self.base_unit_provider.set(\"min\", SystemTagName.SCOPE_TIME, SystemTagName.BLOCK_TIME)", "        self.base_unit_provider.set(\"min\", SystemTagName.BLOCK_TIME, SystemTagName.SCOPE_TIME)", "R03b", "scope/block clock swapped for min"),
    # ---------------------------------------------------------------- C04
    M("C04-no-abort", "C04", PI, "            old_block.block_ended = True\n            self._abort_block_interrupts(old_block)\n            self.context.emitter.emit_on_scope_end(old_block.id, \"Block\", old_block.arguments)\n\n            logger.debug(f\"EndBlockNode {node.key} has ended block {old_block.key}\")\n            logger.debug(f\"New active block is: {new_block.key if new_block is not None else \"No active block\"}\")\n\n        self.tracking.mark_completed(node)\n        node.completed = True\n        yield VisitResult.EndTick\n\n\n    def visit_EndBlocksNode",
      "            old_block.block_ended = True\n            self.context.emitter.emit_on_scope_end(old_block.id, \"Block\", old_block.arguments)\n\n        self.tracking.mark_completed(node)\n        node.completed = True\n        yield VisitResult.EndTick\n\n\n    def visit_EndBlocksNode", "R04c", "End block does not abort interrupts"),
    M("C04-no-rearm", "C04", PI, "        self._unregister_interrupt(node)\n        node.reset_runtime_state(recursive=True)\n        self._register_interrupt(node)", "        self._unregister_interrupt(node)\n        node.reset_runtime_state(recursive=True)", "R04b", "Alarm not re-armed"),
    M("C04-activate-cancelled", "C04", PI, "        if node.cancelled:\n            logger.error(\"Cancel must be handled before _try_active_node\")\n            return\n        elif node.forced:", "        if node.forced:", "R04a", "cancelled node can activate"),
    # ---------------------------------------------------------------- C05
    M("C05-endblocks-no-scope-end", "C05", PI, "                old_block.block_ended = True\n                self._abort_block_interrupts(old_block)\n                self.context.emitter.emit_on_scope_end(old_block.id, \"Block\", old_block.arguments)\n\n                logger.debug",
      "                old_block.block_ended = True\n                self._abort_block_interrupts(old_block)\n\n                logger.debug", "R05a", "End blocks forgets scope end"),
    M("C05-no-release", "C05", PI, "        # release lock\n        node.lock_acquired = False\n", "        # release lock\n", "R05b", "lock never released on the normal path"),
    M("C05-tag-not-cleared", "C05", PI, "        self.context.tags[SystemTagName.BLOCK].set_value(None, self._tick_time)\n        self.tracking.mark_completed(node)", "        self.tracking.mark_completed(node)", "R05a", "End blocks leaves the Block tag"),
    # ---------------------------------------------------------------- C41
    M("C41-no-recursion-test", "C41", PI, "        if cascade and macro_name in cascade:", "        if cascade and len(cascade) > 10:", "R41a", "recursion test disabled"),
    M("C41-first-definition-wins", "C41", PI, "        program_node.macros[macro_name] = node\n        logger.debug(f\"Macro '{node.macro_name}' registered to {node.key}\")", "        program_node.macros.setdefault(macro_name, node)\n        logger.debug(f\"Macro '{node.macro_name}' registered to {node.key}\")", "R41b", "re-definition ignored"),
    M("C41-edit-started-macro", "C41", MM, "            if old_macro_node.run_started_count > 0:", "            if old_macro_node.run_started_count > 1:", "R41c", "macro started once may be edited"),
    # ---------------------------------------------------------------- C14
    M("C14-inject-resets", "C14", PI, "        self._register_interrupt(node)\n\n        # because neither InjectedNode", "        self._register_interrupt(node)\n        self._program.reset_runtime_state(recursive=True)\n\n        # because neither InjectedNode", "R14b", "inject resets method progress"),
    M("C14-interp-while-paused", "C14", ENG, "            if self._runstate_started and \\\n                    not self._runstate_paused and \\\n                    not self._runstate_holding and \\\n                    not self._runstate_stopping:", "            if self._runstate_started and \\\n                    not self._runstate_holding and \\\n                    not self._runstate_stopping:", "R14c", "interpreter ticks while paused"),
    # ---------------------------------------------------------------- C32 / C33 / C35 / C26
    M("C32-unguarded-route", "C32", "openpectus/aggregator/routers/process_unit.py", "    engine_data = get_registered_engine_data_or_fail(unit_id, user_roles, agg)\n    return Dto.Method.from_model(engine_data.method)", "    engine_data = agg.get_registered_engine_data(unit_id)\n    return Dto.Method.from_model(engine_data.method)", "R32a", "route reads unit data directly"),
    M("C32-helper-no-check", "C32", "openpectus/aggregator/routers/process_unit.py", "    if not has_access(engine_data, user_roles):\n        raise HTTPException(status_code=HTTP_403_FORBIDDEN, detail={'missing_roles': list(engine_data.required_roles)})\n    return engine_data", "    return engine_data", "R32a", "helper no longer checks roles"),
    M("C32-list-unfiltered", "C32", "openpectus/aggregator/routers/recent_runs.py", "filter(lambda rr: has_access(rr, user_roles), repo.get_all())", "repo.get_all()", "R32b", "recent runs listed unfiltered"),
    M("C32-wrong-id", "C32", "openpectus/aggregator/routers/process_unit.py", "    _ = get_registered_engine_data_or_fail(unit_id, user_roles, agg)\n    if not await agg.from_frontend.request_force(engine_id=unit_id,", "    _ = get_registered_engine_data_or_fail(unit_id, user_roles, agg)\n    if not await agg.from_frontend.request_force(engine_id=line_id,", "R32a", "command sent to a different id than was checked"),
    M("C33-no-access-check", "C33", "openpectus/aggregator/webpush_publisher.py", "                    if np.scope == NotificationScope.SPECIFIC_PROCESS_UNITS\n                    and has_access(process_unit, set(np.user_roles))\n", "                    if np.scope == NotificationScope.SPECIFIC_PROCESS_UNITS\n", "R33a", "specific-units selection skips the role check"),
    M("C33-contributor-gets-own", "C33", "openpectus/aggregator/webpush_publisher.py", "                    if notification.data.contributor_id == subscription.user_id:\n                        continue", "                    if notification.data.contributor_id == subscription.user_id:\n                        pass", "R33c", "new contributor notified about themselves"),
    M("C35-merge-other-severity", "C35", "openpectus/aggregator/models.py", "            if latest is not None and entry.message == latest.message and entry.severity == latest.severity:", "            if latest is not None and entry.message == latest.message:", "R35b", "entries of different severity merged"),
    M("C26-bytes-field", "C26", "openpectus/protocol/models.py", "class PlotColorRegion(ProtocolModel):\n    process_value_name: str", "class PlotColorRegion(ProtocolModel):\n    process_value_name: str\n    raw: bytes = b''", "R26a", "bytes field in a protocol model"),
    M("C26-any-namespace", "C26", "openpectus/protocol/serialization.py", "        if module_name not in _message_namespace_names:\n            raise ValueError(f\"Message module name '{module_name}' is not a valid protocol message namespace.\")\n", "", "R26b", "namespace not validated"),
    # ---------------------------------------------------------------- C13
    M("C13-no-catch-all", "C13", ENG, "                except Exception as ex:\n                    logger.error(\"Unhandled interpretation error\", exc_info=True)\n                    frontend_logger.error(\"Method error\")\n                    self.set_error_state(ex)\n", "", "R13a", "catch-all handler around interpreter.tick removed"),
    M("C13-handler-no-error-state", "C13", ENG, "                    if ie.user_message is not None:\n                        frontend_logger.error(ie.user_message)\n                    self.set_error_state(ie)", "                    if ie.user_message is not None:\n                        frontend_logger.error(ie.user_message)\n                        self.set_error_state(ie)", "R13a", "InterpretationError without user message does not pause"),
    M("C13-cmd-tick-unprotected", "C13", ENG, "            try:\n                assert self._command_manager is not None\n                self._command_manager.tick(tick_time, self._tick_number)\n            except Exception as ex:\n                self.set_error_state(ex)\n", "            assert self._command_manager is not None\n            self._command_manager.tick(tick_time, self._tick_number)\n", "R13a", "command manager tick outside try"),
    M("C13-error-state-conditional-pause", "C13", ENG, "        self._last_error = exception\n        self._runstate_paused = True\n", "        self._last_error = exception\n        if self._runstate_started:\n            self._runstate_paused = True\n", "R13b", "pause flag only set when started"),
    M("C13-emitter-no-try", "C13", "openpectus/lang/exec/events.py", "            try:\n                listener.on_tick(tick_time, increment_time)\n            except Exception:\n                logger.error(f\"on_tick failed for listener '{listener}'\", exc_info=True)\n", "            listener.on_tick(tick_time, increment_time)\n", "R13b", "on_tick fan-out unprotected"),
    M("C13-visit-narrow-handler", "C13", PI, "            except Exception as ex:\n                node.failed = True\n                self._last_error = ex, node", "            except NodeInterpretationError as ex:\n                node.failed = True\n                self._last_error = ex, node", "R13c", "only interpretation errors are recorded as failures"),
    M("C13-visit-not-failed", "C13", PI, "            except Exception as ex:\n                node.failed = True\n                self._last_error = ex, node", "            except Exception as ex:\n                self._last_error = ex, node", "R13c", "failing node not marked failed"),
    M("C13-cmd-swallow", "C13", CM, "            self.tracking.mark_failed(cmd_request)\n            logger.error(f\"Error running command '{cmd_request.name}'\", exc_info=True)\n            raise", "            self.tracking.mark_failed(cmd_request)\n            logger.error(f\"Error running command '{cmd_request.name}'\", exc_info=True)\n            self._executing_command_done(cmd_request)", "R13c", "failing command swallowed: run not paused"),
    M("C13-new-unprotected-raise", "C13", ENG, "        self._tick_time = tick_time\n        self._tick_number += 1\n", "        self._tick_time = tick_time\n        self._tick_number += 1\n        if increment_time < 0:\n            raise ValueError(\"negative increment\")\n", "R13d", "new raise in the unprotected part of tick"),
    M("C13-tracking-tick-raises", "C13", "openpectus/lang/exec/tracking.py", "    def tick(self, tick_time: float, tick_number: int):\n", "    def tick(self, tick_time: float, tick_number: int):\n        if tick_number < self.tick_number:\n            raise ValueError(\"tick number went backwards\")\n", "R13d", "new raise in Tracking.tick, which runs outside the try"),
    M("C13-stop-refused-paused", "C13", ENG, "            if sys_state_value in [SystemStateEnum.Stopped, SystemStateEnum.Restarting]:\n                raise ValueError(f\"Stop command is not valid when system state is {sys_state_value}\")", "            if sys_state_value in [SystemStateEnum.Stopped, SystemStateEnum.Restarting, SystemStateEnum.Paused]:\n                raise ValueError(f\"Stop command is not valid when system state is {sys_state_value}\")", "R13e", "Stop refused while paused"),
    M("C13-merge-keeps-error", "C13", ENG, "                    if self.has_error_state():\n                        self.clear_error_state()\n", "", "R13e", "merge does not clear the error state"),
    E("C13-handler-order", "C13", ENG, "                except Exception as ex:\n                    logger.error(\"Unhandled interpretation error\", exc_info=True)\n                    frontend_logger.error(\"Method error\")\n                    self.set_error_state(ex)\n", "                except Exception as ex:\n                    self.set_error_state(ex)\n                    logger.error(\"Unhandled interpretation error\", exc_info=True)\n                    frontend_logger.error(\"Method error\")\n", "set_error_state first in handler"),
    E("C13-bare-except", "C13", ENG, "            except Exception as ex:\n                self.set_error_state(ex)\n\n            # notify of tag changes", "            except BaseException as ex:\n                self.set_error_state(ex)  # type: ignore\n\n            # notify of tag changes", "wider catch-all"),
    # ---------------------------------------------------------------- C15
    M("C15-wall-clock-state", "C15", "openpectus/lang/exec/tracking.py", "        record._add_state(instance_id, state, self.tick_time, self.tick_number,", "        record._add_state(instance_id, state, time.time(), self.tick_number,", "R15a", "record states stamped with another clock"),
    M("C15-states-prepend", "C15", RLOG, "        self.states.append(record_state)", "        self.states.insert(0, record_state)", "R15a", "states no longer in insertion order"),
    M("C15-start-any-state", "C15", RLOG, "                    item.state = RunLogItemState.Started  # TODO possibly improve - could also be Waiting\n                    item.start = state.state_time\n", "                    item.state = RunLogItemState.Started  # TODO possibly improve - could also be Waiting\n", "R15a", "start no longer assigned in first-state branch", also=[]),
    M("C15-order-check-soft", "C15", RLOG, "            self._check_record_states_ordered(invocation_states, raise_if_unordered=True)", "            self._check_record_states_ordered(invocation_states, raise_if_unordered=False)", "R15a", "ordering check only warns"),
    M("C15-no-sort", "C15", RLOG, "        runlog.items.sort(key=lambda item: item.start)\n", "", "R15b", "run log not sorted"),
    M("C15-sort-by-end", "C15", RLOG, "        runlog.items.sort(key=lambda item: item.start)\n", "        runlog.items.sort(key=lambda item: item.end or item.start)\n", "R15b", "sorted by something else"),
    M("C15-id-node", "C15", RLOG, "                    item.id = state.instance_id\n", "                    item.id = r.node_id\n", "R15b", "item id is the node id: alarm invocations share it"),
    M("C15-still-cancellable", "C15", RLOG, "                    item.end_values = state.values or TagValueCollection.empty()\n                    item.cancellable = False\n", "                    item.end_values = state.values or TagValueCollection.empty()\n", "R15c", "finished item stays cancellable"),
    M("C15-end-only-last", "C15", RLOG, "                if is_conclusive_state:\n                    item.end = state.state_time\n", "                if is_conclusive_state and not has_more_states:\n                    item.end = state.state_time\n", "R15c", "end only on the last state"),
    M("C15-cancelled-not-conclusive", "C15", RLOG, "                    RuntimeRecordStateEnum.Completed, RuntimeRecordStateEnum.Failed, RuntimeRecordStateEnum.Cancelled\n                ]", "                    RuntimeRecordStateEnum.Completed, RuntimeRecordStateEnum.Failed\n                ]", "R15c", "cancelled items never end"),
    M("C15-progress-after-finalise", "C15", RLOG, "                if not is_conclusive_state:\n                    if command is not None:\n                        if isinstance(command, UodCommand):\n                            item.cancellable = True  # Node.cancellable does not support uod commands\n                        self._update_item_progress(item, command)\n                    elif r.progress is not None:\n                        self._update_item_progress(item, r)\n\n                if is_conclusive_state:\n                    item.end = state.state_time\n                    item.end_values = state.values or TagValueCollection.empty()\n                    item.cancellable = False\n                    item.forcible = False\n", "                if is_conclusive_state:\n                    item.end = state.state_time\n                    item.end_values = state.values or TagValueCollection.empty()\n                    item.cancellable = False\n                    item.forcible = False\n\n                if command is not None:\n                    if isinstance(command, UodCommand):\n                        item.cancellable = True  # Node.cancellable does not support uod commands\n                    self._update_item_progress(item, command)\n                elif r.progress is not None:\n                    self._update_item_progress(item, r)\n", "R15c", "uod command items re-marked cancellable after finalisation"),
    M("C15-start-every-state", "C15", RLOG, "                    item.state = RunLogItemState.Started  # TODO possibly improve - could also be Waiting\n                    item.start = state.state_time\n", "                    item.state = RunLogItemState.Started  # TODO possibly improve - could also be Waiting\n                if item is not None:\n                    item.start = state.state_time\n", "R15a", "start overwritten by every state"),
    M("C15-exclude-watch", "C15", RLOG, "               (p.ProgramNode, p.BlankNode, p.CommentNode, p.InjectedNode)):", "               (p.ProgramNode, p.BlankNode, p.CommentNode, p.InjectedNode, p.WatchNode)):", "R15d", "Watch excluded from the run log"),
    M("C15-exclude-mark", "C15", RLOG, "        if r.name == \"Stop\":\n            return []", "        if r.name == \"Stop\" or r.name == \"Mark\":\n            return []", "R15d", "Mark excluded from the run log"),
    M("C15-notify-not-tracked", "C15", PI, "        self.tracking.mark_started(node)\n        self.tracking.mark_completed(node)\n        node.completed = True\n        yield VisitResult.EndTick\n\n\n    def visit_EngineCommandNode", "        self.tracking.mark_started(node)\n        node.completed = True\n        yield VisitResult.EndTick\n\n\n    def visit_EngineCommandNode", "R15e", "Notify completes without a Completed state"),
    E("C15-finalise-reordered", "C15", RLOG, "                    item.end = state.state_time\n                    item.end_values = state.values or TagValueCollection.empty()\n                    item.cancellable = False\n                    item.forcible = False\n", "                    item.cancellable = False\n                    item.forcible = False\n                    item.end_values = state.values or TagValueCollection.empty()\n                    item.end = state.state_time\n", "finalisation statements reordered"),
    E("C15-conclusive-tuple", "C15", RLOG, "                is_conclusive_state = state.state_name in [\n                    RuntimeRecordStateEnum.Completed, RuntimeRecordStateEnum.Failed, RuntimeRecordStateEnum.Cancelled\n                ]", "                is_conclusive_state = state.state_name in (\n                    RuntimeRecordStateEnum.Cancelled, RuntimeRecordStateEnum.Completed, RuntimeRecordStateEnum.Failed)", "tuple, other order"),
    # ---------------------------------------------------------------- C34
    M("C34-single-step", "C34", CSVG, "            while len(entry.values) >= 2 and tick_time >= entry.values[1].tick_time:", "            if len(entry.values) >= 2 and tick_time >= entry.values[1].tick_time:", "R34d", "cursor advances once per row (the pinned tree's defect)"),
    M("C34-future-value", "C34", CSVG, "            if len(entry.values) == 0 or tick_time < entry.values[0].tick_time:", "            if len(entry.values) == 0:", "R34e", "late-starting tag shows its first value early (the pinned tree's defect)"),
    M("C34-rows-before-header", "C34", CSVG, "    _write_header_row(csv_writer, plot_log)\n    _write_data_rows(csv_writer, plot_log, _get_tick_times(plot_log))", "    tick_times = _get_tick_times(plot_log)\n    rows = StringIO()\n    _write_data_rows(csv.writer(rows), plot_log, tick_times)\n    _write_header_row(csv_writer, plot_log)\n    csv_string.write(rows.getvalue())", "R34a", "rows generated before the header writer sorted the values"),
    M("C34-header-no-sort", "C34", CSVG, "        entry.values.sort(key=lambda e: e.tick_time)\n", "", "R34a", "nobody sorts the values"),
    M("C34-times-not-unique", "C34", CSVG, "    unique_tick_times = list(set(list_of_all_tick_times))", "    unique_tick_times = list(list_of_all_tick_times)", "R34b", "duplicate row times"),
    M("C34-times-descending", "C34", CSVG, "    unique_tick_times.sort()", "    unique_tick_times.sort(reverse=True)", "R34b", "rows newest first"),
    M("C34-other-columns", "C34", CSVG, "    for entry in plot_log.entries.values():\n        entry.values.sort(key=lambda e: e.tick_time)", "    for entry in sorted(plot_log.entries.values(), key=lambda e: e.name):\n        entry.values.sort(key=lambda e: e.tick_time)", "R34c", "header sorted by name, rows not"),
    M("C34-skip-empty-entry", "C34", CSVG, "                # no value yet for this tag\n                row.append(None)", "                # no value yet for this tag\n                continue", "R34c", "no cell for a tag without value: columns shift"),
    E("C34-guard-mirrored", "C34", CSVG, "            if len(entry.values) == 0 or tick_time < entry.values[0].tick_time:\n                # no value yet for this tag\n                row.append(None)\n            else:\n                row.append(entry.values[0].value)", "            if len(entry.values) > 0 and entry.values[0].tick_time <= tick_time:\n                row.append(entry.values[0].value)\n            else:\n                row.append(None)", "guard mirrored, branches swapped"),
    E("C34-sorted-builtin", "C34", CSVG, "    unique_tick_times = list(set(list_of_all_tick_times))\n    unique_tick_times.sort()\n    return unique_tick_times", "    return sorted(set(list_of_all_tick_times))", "sorted(set(...))"),
]
