import sys
from . import main
sys.exit(main())
