"""Statement-level control-flow graph for the statement kinds Open-Pectus uses.

Nodes are simple statements, or the *header* of a compound statement (test of if/while, iterator
of for, items of with, subject/case of match, except-handler entry). Edges carry a label:
  ''        fall-through
  'T' 'F'   outcome of a test node
  'loop' 'exit'   for-iterator yields an element / is exhausted
  'exc'     exceptional edge (explicit raise, or any statement inside a try body -> handler)
  'match' 'nomatch'  case arms
`finally` bodies are duplicated per continuation kind (normal / return / exc / break / continue),
so no infeasible normal->exceptional paths are introduced.
"""
from __future__ import annotations

import ast
from collections import deque
from typing import Callable, Iterable, Iterator

from .model import norm, stmt_header, walk_no_nested


class Node:
    __slots__ = ("id", "kind", "ast", "label", "_calls")

    def __init__(self, id: int, kind: str, node: ast.AST | None, label: str = ""):
        self.id = id
        self.kind = kind      # entry exit raise stmt test for with except case join
        self.ast = node
        self.label = label
        self._calls = None

    @property
    def lineno(self) -> int:
        return getattr(self.ast, "lineno", 0)

    def text(self) -> str:
        if self.ast is None:
            return f"<{self.kind}>"
        if self.kind == "test":
            return f"test {norm(self.ast)}"
        if self.kind == "for":
            return f"for {norm(self.ast.target)} in {norm(self.ast.iter)}"
        if self.kind == "with":
            return "with " + ", ".join(norm(i) for i in self.ast.items)
        if self.kind == "except":
            return "except " + (norm(self.ast.type) if self.ast.type is not None else "")
        if self.kind == "case":
            return "case " + norm(self.ast.pattern)
        return stmt_header(self.ast)

    def exprs(self) -> list[ast.AST]:
        """The expressions evaluated *at this node* (header only for compound statements)."""
        a = self.ast
        if a is None:
            return []
        if self.kind == "test":
            return [a]
        if self.kind == "for":
            return [a.iter, a.target]
        if self.kind == "with":
            out = []
            for i in a.items:
                out.append(i.context_expr)
                if i.optional_vars is not None:
                    out.append(i.optional_vars)
            return out
        if self.kind == "except":
            return [a.type] if a.type is not None else []
        if self.kind == "case":
            return [a.pattern] + ([a.guard] if a.guard is not None else [])
        if self.kind == "stmt":
            if isinstance(a, (ast.FunctionDef, ast.AsyncFunctionDef, ast.ClassDef)):
                return list(a.decorator_list)
            return [a]
        return []

    def walk(self) -> Iterator[ast.AST]:
        for e in self.exprs():
            yield from walk_no_nested(e)

    def calls(self) -> list[ast.Call]:
        if self._calls is None:
            self._calls = [n for n in self.walk() if isinstance(n, ast.Call)]
        return self._calls

    def __repr__(self) -> str:
        return f"<{self.id}:{self.kind} L{self.lineno} {self.text()[:60]}>"


CATCH_ALL = {"Exception", "BaseException"}


def handler_is_catch_all(h: ast.ExceptHandler) -> bool:
    if h.type is None:
        return True
    names = [h.type] if not isinstance(h.type, ast.Tuple) else list(h.type.elts)
    return any(norm(n).split(".")[-1] in CATCH_ALL for n in names)


class CFG:
    def __init__(self, func: ast.FunctionDef | ast.AsyncFunctionDef | ast.Module):
        self.func = func
        self.nodes: list[Node] = []
        self.succ: dict[int, list[tuple[int, str]]] = {}
        self.pred: dict[int, list[tuple[int, str]]] = {}
        self.entry = self._new("entry", None)
        self.exit = self._new("exit", None)
        self.raise_exit = self._new("raise", None)
        self._frames: list[tuple] = []
        self._stmt_nodes: dict[int, list[Node]] = {}
        ends = self._block(func.body, [(self.entry.id, "")])
        for e in ends:
            self._edge(e, self.exit.id)
        self._dom: dict[int, set[int]] | None = None
        self._pdom: dict[int, set[int]] | None = None

    # -- construction --------------------------------------------------------------------------
    def _new(self, kind: str, node: ast.AST | None, label: str = "") -> Node:
        n = Node(len(self.nodes), kind, node, label)
        self.nodes.append(n)
        self.succ[n.id] = []
        self.pred[n.id] = []
        if node is not None:
            self._stmt_nodes.setdefault(id(node), []).append(n)
        return n

    def _edge(self, src: tuple[int, str] | int, dst: int, label: str | None = None) -> None:
        if isinstance(src, tuple):
            s, l = src
        else:
            s, l = src, ""
        if label is not None:
            l = label
        if (dst, l) not in self.succ[s]:
            self.succ[s].append((dst, l))
            self.pred[dst].append((s, l))

    def _connect(self, ins: list[tuple[int, str]], node: Node) -> None:
        for i in ins:
            self._edge(i, node.id)

    def _block(self, body: list[ast.stmt], ins: list[tuple[int, str]]) -> list[tuple[int, str]]:
        cur = ins
        for st in body:
            cur = self._stmt(st, cur)
        return cur

    def _stmt(self, st: ast.stmt, ins: list[tuple[int, str]]) -> list[tuple[int, str]]:
        if isinstance(st, ast.If):
            # tests are stored without leading negations and the edge labels are swapped instead: `if not c: A else: B` and
            # `if c: B else: A` give the same graph, so no rule depends on how a branch is phrased
            test, flipped = _strip_not(st.test)
            TL, FL = ("F", "T") if flipped else ("T", "F")
            t = self._new("test", test)
            self._connect(ins, t)
            self._implicit_exc(t)
            outs = self._block(st.body, [(t.id, TL)])
            outs += self._block(st.orelse, [(t.id, FL)]) if st.orelse else [(t.id, FL)]
            return outs
        if isinstance(st, ast.While):
            test, flipped = _strip_not(st.test)
            TL, FL = ("F", "T") if flipped else ("T", "F")
            t = self._new("test", test)
            self._connect(ins, t)
            self._implicit_exc(t)
            after = self._new("join", None, "while-exit")
            self._frames.append(("loop", t.id, after.id))
            body_out = self._block(st.body, [(t.id, TL)])
            self._frames.pop()
            for o in body_out:
                self._edge(o, t.id)
            const_true = isinstance(st.test, ast.Constant) and bool(st.test.value)
            if not const_true:
                else_out = self._block(st.orelse, [(t.id, FL)]) if st.orelse else [(t.id, FL)]
                for o in else_out:
                    self._edge(o, after.id)
            return [(after.id, "")] if self.pred[after.id] else []
        if isinstance(st, (ast.For, ast.AsyncFor)):
            t = self._new("for", st)
            self._connect(ins, t)
            self._implicit_exc(t)
            after = self._new("join", None, "for-exit")
            self._frames.append(("loop", t.id, after.id))
            body_out = self._block(st.body, [(t.id, "loop")])
            self._frames.pop()
            for o in body_out:
                self._edge(o, t.id)
            else_out = self._block(st.orelse, [(t.id, "exit")]) if st.orelse else [(t.id, "exit")]
            for o in else_out:
                self._edge(o, after.id)
            return [(after.id, "")]
        if isinstance(st, (ast.With, ast.AsyncWith)):
            w = self._new("with", st)
            self._connect(ins, w)
            self._implicit_exc(w)
            return self._block(st.body, [(w.id, "")])
        if isinstance(st, ast.Try) or (hasattr(ast, "TryStar") and isinstance(st, ast.TryStar)):
            return self._try(st, ins)
        if isinstance(st, ast.Match):
            s = self._new("test", st.subject)
            self._connect(ins, s)
            self._implicit_exc(s)
            outs: list[tuple[int, str]] = []
            cur = [(s.id, "")]
            exhaustive = False
            for case in st.cases:
                c = self._new("case", case)
                self._connect(cur, c)
                outs += self._block(case.body, [(c.id, "match")])
                irrefutable = case.guard is None and (
                    (isinstance(case.pattern, ast.MatchAs) and case.pattern.pattern is None))
                if irrefutable:
                    exhaustive = True
                    cur = []
                    break
                cur = [(c.id, "nomatch")]
            if not exhaustive:
                outs += cur
            return outs
        # simple statements
        n = self._new("stmt", st)
        self._connect(ins, n)
        if isinstance(st, ast.Return):
            self._implicit_exc(n)
            self._jump(n.id, "return")
            return []
        if isinstance(st, ast.Raise):
            self._jump(n.id, "exc")
            return []
        if isinstance(st, ast.Break):
            self._jump(n.id, "break")
            return []
        if isinstance(st, ast.Continue):
            self._jump(n.id, "continue")
            return []
        self._implicit_exc(n)
        if isinstance(st, ast.Assert):
            # assert may raise; modelled as implicit exc inside try only (like any statement)
            pass
        return [(n.id, "")]

    def _try(self, st: ast.Try, ins: list[tuple[int, str]]) -> list[tuple[int, str]]:
        has_finally = bool(st.finalbody)
        if has_finally:
            # entry of the copy of the finally body that runs when a statement of the try (or of a handler) raises
            # implicitly; after it the exception continues outwards
            fin_entry = self._new("join", None, "finally-exc")
            self._frames.append(("finally", st.finalbody, fin_entry.id))
        hnodes = [self._new("except", h) for h in st.handlers]
        catch_all = any(handler_is_catch_all(h) for h in st.handlers)
        if hnodes:
            self._frames.append(("except", [h.id for h in hnodes], catch_all))
        body_out = self._block(st.body, ins)
        if hnodes:
            self._frames.pop()
        outs = self._block(st.orelse, body_out) if st.orelse else body_out
        for hn, h in zip(hnodes, st.handlers):
            outs = outs + self._block(h.body, [(hn.id, "")])
        if has_finally:
            self._frames.pop()
            if outs:
                outs = self._block(st.finalbody, outs)
            if self.pred[fin_entry.id]:
                fouts = self._block(st.finalbody, [(fin_entry.id, "")])
                if fouts:
                    fin_end = self._new("join", None, "finally-exc-end")     # keeps the branch labels of the finally body's exits
                    self._connect(fouts, fin_end)
                    self._jump(fin_end.id, "exc")
        return outs

    def _implicit_exc(self, n: Node) -> None:
        """Any statement lexically inside a try body may raise into that try's handlers."""
        if n.kind == "test" and n.ast is not None and all(
                isinstance(x, (ast.Name, ast.Constant, ast.BoolOp, ast.And, ast.Or, ast.UnaryOp, ast.Not, ast.Load, ast.Compare, ast.Is,
                               ast.IsNot)) for x in ast.walk(n.ast)):
            return      # a test of plain names / constants / identity comparisons cannot raise
        for fr in reversed(self._frames):
            if fr[0] == "except":
                for h in fr[1]:
                    self._edge(n.id, h, "exc")
                if fr[2]:
                    return
            elif fr[0] == "finally":
                # one shared exceptional copy of the finally body per try statement (built in _try)
                self._edge(n.id, fr[2], "exc")
                return
        # not caught: leaves the function (no edge added for implicit exceptions outside try)

    def _jump(self, src: int, kind: str) -> None:
        cur: list[tuple[int, str]] = [(src, "exc" if kind == "exc" else "")]
        frames = list(self._frames)
        i = len(frames) - 1
        while i >= 0:
            fr = frames[i]
            if fr[0] == "loop" and kind in ("break", "continue"):
                tgt = fr[2] if kind == "break" else fr[1]
                for c in cur:
                    self._edge(c, tgt)
                return
            if fr[0] == "except" and kind == "exc":
                for h in fr[1]:
                    for c in cur:
                        self._edge(c, h, "exc")
                if fr[2]:
                    return
            if fr[0] == "finally":
                saved = self._frames
                self._frames = frames[:i]
                cur = self._block(fr[1], cur)
                self._frames = saved
                if not cur:
                    return
            i -= 1
        tgt = self.raise_exit.id if kind == "exc" else self.exit.id
        for c in cur:
            self._edge(c, tgt, "exc" if kind == "exc" else None)

    # -- queries -------------------------------------------------------------------------------
    def nodes_for(self, a: ast.AST) -> list[Node]:
        return self._stmt_nodes.get(id(a), [])

    def node_containing(self, a: ast.AST) -> list[Node]:
        """CFG nodes whose own expressions contain AST node `a`."""
        out = []
        for n in self.nodes:
            if n.ast is None:
                continue
            for x in n.walk():
                if x is a:
                    out.append(n)
                    break
        return out

    def reachable(self, starts: Iterable[int | tuple[int, str]] | None = None,
                  blocked: Callable[[Node], bool] | None = None,
                  follow_exc: bool = True) -> set[int]:
        res = self.search(starts, lambda n: False, blocked, follow_exc, collect=True)
        return res  # type: ignore

    def search(self, starts, is_target: Callable[[Node], bool], blocked=None, follow_exc=True,
               collect=False, blocked_edge: Callable[[int, int, str], bool] | None = None):
        """BFS. starts: node ids (search begins *after* evaluating them? no: begins AT them) or
        (node id, label) pairs meaning 'leave node through edges with that label'.
        Returns a witness path (list[Node]) to the first target, or None; with collect=True
        returns the set of visited node ids. Blocked nodes are not entered."""
        if starts is None:
            starts = [self.entry.id]
        prev: dict[int, int | None] = {}
        dq: deque[int] = deque()

        def push(nid: int, frm: int | None):
            if nid in prev:
                return
            n = self.nodes[nid]
            if blocked is not None and blocked(n):
                return
            prev[nid] = frm
            dq.append(nid)

        for s in starts:
            if isinstance(s, tuple):
                sid, lab = s
                for d, l in self.succ[sid]:
                    if l == lab and (follow_exc or l != "exc"):
                        if blocked_edge is None or not blocked_edge(sid, d, l):
                            push(d, None)
            else:
                push(s, None)
        while dq:
            nid = dq.popleft()
            n = self.nodes[nid]
            if is_target(n):
                path = []
                cur: int | None = nid
                while cur is not None:
                    path.append(self.nodes[cur])
                    cur = prev[cur]
                return path[::-1]
            for d, l in self.succ[nid]:
                if l == "exc" and not follow_exc:
                    continue
                if blocked_edge is not None and blocked_edge(nid, d, l):
                    continue
                push(d, nid)
        return set(prev) if collect else None

    def path_to_exit_avoiding(self, starts, avoid: Callable[[Node], bool], follow_exc=False,
                              include_raise=False):
        """Witness path from starts to the normal exit (optionally also the raise exit) that
        passes through no node satisfying `avoid`; None if every path passes one (must-pass)."""
        def tgt(n: Node) -> bool:
            return n.id == self.exit.id or (include_raise and n.id == self.raise_exit.id)
        return self.search(starts, tgt, blocked=avoid, follow_exc=follow_exc or include_raise)

    def consistent_path_to_exit_avoiding(self, starts, avoid: Callable[[Node], bool], follow_exc: bool = False, init_facts=()):
        """Like path_to_exit_avoiding, but *path sensitive* for repeated tests: the atoms established by the test outcomes taken so far
        are carried along the path (killed when a statement assigns a name they mention), and an outcome that contradicts them is not
        followed. `if a and b: x ... if a: y else: z` - a path through x never reaches z. Returns a witness path or None."""
        import re as _re
        start_items = [self.entry.id] if starts is None else list(starts)
        stack: list[tuple[int, frozenset, tuple]] = []
        for s_ in start_items:
            if isinstance(s_, tuple):
                sid, lab = s_
                f0 = set(init_facts)
                nd = self.nodes[sid]
                if nd.kind == "test" and lab in ("T", "F"):
                    f0 |= set(atoms(nd.ast, lab == "T"))
                for d, l in self.succ[sid]:
                    if l == lab:
                        stack.append((d, frozenset(f0), (sid,)))
            else:
                stack.append((s_, frozenset(init_facts), ()))
        seen: set = set()
        while stack:
            nid, facts, path = stack.pop()
            if (nid, facts) in seen or len(seen) > 200000:
                continue
            seen.add((nid, facts))
            nd = self.nodes[nid]
            if avoid(nd):
                continue
            if nid == self.exit.id:
                return [self.nodes[i] for i in path + (nid,)]
            cur = set(facts)
            if nd.kind in ("stmt", "for") and nd.ast is not None:
                assigned = {t.id for x in ast.walk(nd.ast) for t in ([x] if isinstance(x, ast.Name) and isinstance(x.ctx, ast.Store) else [])}
                assigned |= {norm(x) for x in ast.walk(nd.ast) if isinstance(x, ast.Attribute) and isinstance(x.ctx, ast.Store)}
                if assigned:
                    cur = {(a, p_) for a, p_ in cur if not any(_re.search(r"(?<![\w.])" + _re.escape(nm) + r"(?![\w])", a) for nm in assigned)}
            for d, l in self.succ[nid]:
                if l == "exc" and not follow_exc:
                    continue
                nxt = set(cur)
                if nd.kind == "test" and l in ("T", "F"):
                    new = atoms(nd.ast, l == "T")
                    if any((a, not p_) in cur for a, p_ in new):
                        continue        # contradicts an outcome taken earlier on this path
                    # a conjunction that is true makes each conjunct true; one that is false is consistent unless all conjuncts are known true
                    if isinstance(nd.ast, ast.BoolOp) and isinstance(nd.ast.op, ast.And) and l == "F":
                        parts = [atoms(v, True) for v in nd.ast.values]
                        if all(all(x in cur for x in p_) for p_ in parts):
                            continue
                    if isinstance(nd.ast, ast.BoolOp) and isinstance(nd.ast.op, ast.Or) and l == "T":
                        parts = [atoms(v, False) for v in nd.ast.values]
                        if all(all(x in cur for x in p_) for p_ in parts):
                            continue
                    nxt |= set(new)
                stack.append((d, frozenset(nxt), path + (nid,)))
        return None

    def dominators(self) -> dict[int, set[int]]:
        if self._dom is None:
            self._dom = _dominators(self, self.entry.id, self.succ, self.pred)
        return self._dom

    def dominates(self, a: Node | int, b: Node | int) -> bool:
        a = a.id if isinstance(a, Node) else a
        b = b.id if isinstance(b, Node) else b
        d = self.dominators()
        return b in d and a in d[b]

    def edge_dominates(self, src: int, label: str, target: int) -> bool:
        """Every path from entry to `target` leaves `src` through an edge labelled `label`
        ... i.e. target becomes unreachable if those edges are removed AND is reachable at all."""
        if target not in self.search(None, lambda n: False, collect=True):
            return False
        vis = self.search(None, lambda n: False, collect=True,
                          blocked_edge=lambda s, d, l: s == src and l == label)
        return target not in vis

    def conditions_at(self, target: Node | int) -> list[tuple[ast.AST, bool]]:
        """Branch conditions (test expr, polarity) known to hold on every path reaching target
        (edge dominance; values may have been reassigned since - callers check that if needed)."""
        tid = target.id if isinstance(target, Node) else target
        out = []
        for n in self.nodes:
            if n.kind != "test" or n.id == tid:
                continue
            labels = {l for _, l in self.succ[n.id]}
            if "T" in labels and self.edge_dominates(n.id, "T", tid):
                out.append((n.ast, True))
            elif "F" in labels and self.edge_dominates(n.id, "F", tid):
                out.append((n.ast, False))
        return out

    def stmt_nodes(self) -> Iterator[Node]:
        for n in self.nodes:
            if n.ast is not None:
                yield n

    def dump(self) -> str:
        lines = []
        for n in self.nodes:
            lines.append(f"{n!r} -> {[(d, l) for d, l in self.succ[n.id]]}")
        return "\n".join(lines)


def _dominators(cfg: CFG, entry: int, succ, pred) -> dict[int, set[int]]:
    reach = cfg.search([entry], lambda n: False, collect=True)
    dom = {n: set(reach) for n in reach}
    dom[entry] = {entry}
    changed = True
    order = sorted(reach)
    while changed:
        changed = False
        for n in order:
            if n == entry:
                continue
            ps = [p for p, _ in pred[n] if p in reach]
            new = set.intersection(*(dom[p] for p in ps)) if ps else set()
            new = new | {n}
            if new != dom[n]:
                dom[n] = new
                changed = True
    return dom


# ------------------------------------------------------------------------------------------------
# condition normalisation (Appendix A.1)
# ------------------------------------------------------------------------------------------------

def _strip_not(test: ast.AST) -> tuple[ast.AST, bool]:
    flipped = False
    while isinstance(test, ast.UnaryOp) and isinstance(test.op, ast.Not):
        test, flipped = test.operand, not flipped
    return test, flipped


def atoms(expr: ast.AST, polarity: bool) -> list[tuple[str, bool]]:
    """Atomic facts implied by `expr` evaluating to `polarity`: a conjunction is split when true,
    a disjunction when false; `not` flips; comparisons are canonicalised."""
    if isinstance(expr, ast.UnaryOp) and isinstance(expr.op, ast.Not):
        return atoms(expr.operand, not polarity)
    if isinstance(expr, ast.BoolOp):
        if isinstance(expr.op, ast.And) and polarity:
            return [a for v in expr.values for a in atoms(v, True)]
        if isinstance(expr.op, ast.Or) and not polarity:
            return [a for v in expr.values for a in atoms(v, False)]
        return [(norm(expr), polarity)]
    if isinstance(expr, ast.Compare) and len(expr.ops) == 1:
        op = expr.ops[0]
        l, r = norm(expr.left), norm(expr.comparators[0])
        neg = {ast.NotEq: "==", ast.NotIn: "in", ast.IsNot: "is"}
        pos = {ast.Eq: "==", ast.In: "in", ast.Is: "is"}
        for k, s in neg.items():
            if isinstance(op, k):
                return [(f"{l} {s} {r}", not polarity)]
        for k, s in pos.items():
            if isinstance(op, k):
                return [(f"{l} {s} {r}", polarity)]
    if isinstance(expr, ast.NamedExpr):
        return atoms(expr.value, polarity) + [(norm(expr.target), polarity)]
    return [(norm(expr), polarity)]


def facts_at(cfg: CFG, target: Node | int, local_defs: dict[str, ast.AST] | None = None) -> set[tuple[str, bool]]:
    """Atomic facts holding at target; single-assignment boolean temporaries are expanded."""
    out: set[tuple[str, bool]] = set()
    for e, pol in cfg.conditions_at(target):
        for a in atoms(e, pol):
            out.add(a)
            if local_defs and a[0] in local_defs:
                for b in atoms(local_defs[a[0]], a[1]):
                    out.add(b)
    return out


def build(func: ast.FunctionDef | ast.AsyncFunctionDef) -> CFG:
    return CFG(func)
