"""Who may continue a macro invocation that is in progress? (C02 R02e, C14 R14g)

A MacroNode has ONE set of body nodes and one child_index. visit_CallMacroNode starts an invocation (reset of the body, started
counter) or - when the counters say an invocation is in progress - continues it; the second case exists so that the call that was
under way when the method was edited goes on after the merge. Any *other* caller that arrives while an invocation is in progress
(a Watch/Alarm body, injected code: `Call macro: M` injected while the method's own call of M is at its Wait) would take the same
branch and join it: the body runs once for two calls, or both walkers hit the same node in one tick (`assert not node.completed`)
and the run stops in the error state.

`check(ctx, rid)` decides the ownership discipline in the shape the code has:
  (1) an attribute A of the macro node is assigned `<call node>.id` on the branch that starts an invocation (the branch that resets
      the body), before the body is walked;
  (2) the walk of the body (`_visit_children(<macro node>)`) is dominated by a waiting loop - a `while` whose test compares A with
      `<call node>.id` for inequality together with the in-progress condition on the counters and whose body yields - so a caller
      that does not own the invocation in progress cannot reach the walk;
  (3) A is carried by MacroNode.extract_state / apply_state (the owner must still be known after a live edit, which is what the
      continue branch is for) and is not cleared by reset_runtime_state.
"""
from __future__ import annotations

import ast

from .model import AnchorError, norm, walk_no_nested
from .util import cfg_of, call_attr, assigned_attrs

PI = "openpectus.lang.exec.pinterpreter:PInterpreter"
MACRO = "openpectus.lang.model.ast:MacroNode"


def check(ctx, rid: str) -> None:
    prog = ctx.prog
    f = prog.cls(PI).methods.get("visit_CallMacroNode")
    if f is None:
        raise AnchorError("PInterpreter.visit_CallMacroNode missing")
    ctx.analysed(f)
    g = cfg_of(f)
    cpar = f.node.args.args[1].arg
    walks = [n for n in g.nodes if n.ast is not None and any(call_attr(c) == "_visit_children" for c in n.calls())]
    resets = [n for n in g.nodes if n.ast is not None and any(call_attr(c) == "reset_runtime_state" for c in n.calls())]
    if not walks or not resets:
        raise AnchorError("visit_CallMacroNode: body walk / reset of the body not found")
    w = walks[0]
    wcall = next(c for c in w.calls() if call_attr(c) == "_visit_children")
    mvar = norm(wcall.args[0]) if wcall.args else "?"
    inst = "visit_CallMacroNode: an invocation in progress is continued only by the Call macro node that started it"
    # is there a continue path at all (a path to the walk that does not reset the body)?
    cont = g.search(None, lambda n: n.id == w.id, blocked=lambda n: any(n.id == r.id for r in resets), follow_exc=False)
    if cont is None:
        ctx.ok(rid, inst + " (no continue branch: every call resets the body)", trivial=True)
        return
    # (1) owner attribute assigned <call>.id on the start branch
    owner = None
    for n in g.nodes:
        if n.kind != "stmt":
            continue
        for t, v, st in assigned_attrs(n.ast):
            if norm(t.value) == mvar and norm(v) == f"{cpar}.id" and any(g.dominates(r, n) or g.dominates(n, r) for r in resets) \
                    and g.search([n.id], lambda x: x.id == w.id, follow_exc=False) is not None \
                    and all(any(g.edge_dominates(tn.id, lab, n.id) and g.edge_dominates(tn.id, lab, r.id) for tn in g.nodes if tn.kind == "test"
                                for lab in ("T", "F")) for r in resets):
                owner = t.attr
    # (2) waiting loop
    waits = False
    if owner is not None:
        def is_yield(n):
            return n.kind == "stmt" and isinstance(n.ast, ast.Expr) and isinstance(n.ast.value, (ast.Yield, ast.YieldFrom))
        for t in g.nodes:
            if t.kind != "test":
                continue
            tx = norm(t.ast)
            if f"{mvar}.{owner} != {cpar}.id" not in tx and f"{cpar}.id != {mvar}.{owner}" not in tx:
                continue
            if "run_started_count" not in tx or "run_completed_count" not in tx:
                continue
            # a loop: from the true outcome a yield is reached and from it the test again
            loops = any(is_yield(y) and g.search([(t.id, "T")], lambda x, y=y: x.id == y.id, follow_exc=False) is not None
                        and g.search([y.id], lambda x, t=t: x.id == t.id, follow_exc=False) is not None for y in g.nodes)
            if loops and g.dominates(t, w):
                waits = True
    # (3) carried across a live edit
    carried = False
    if owner is not None:
        mc = prog.cls(MACRO)
        ex, ap, rs = mc.methods.get("extract_state"), mc.methods.get("apply_state"), mc.methods.get("reset_runtime_state")
        if ex is None or ap is None:
            raise AnchorError("MacroNode.extract_state / apply_state missing")
        ex_ok = any(isinstance(n, ast.Attribute) and n.attr == owner for n in ast.walk(ex.node))
        ap_ok = any(t.attr == owner for t, v, st in assigned_attrs(ap.node))
        rs_clears = rs is not None and any(t.attr == owner for t, v, st in assigned_attrs(rs.node))
        carried = ex_ok and ap_ok and not rs_clears
    if owner is not None and waits and carried:
        ctx.ok(rid, inst, {"rule": rid, "owner_attribute": owner})
        return
    why = "no attribute of the macro node records which Call macro node started the invocation" if owner is None else (
        f"`{mvar}.{owner}` is recorded but no waiting loop in front of the body walk tests it" if not waits else
        f"`{owner}` is not carried by MacroNode.extract_state/apply_state (or is cleared by reset_runtime_state): after a live edit the "
        "call that was under way no longer owns its invocation and waits for ever")
    ctx.fail(rid, f, w.ast, inst, f"{why}: any caller that arrives while the counters say 'in progress' joins the running invocation - method "
             "`Macro: M / Mark: m1 / Wait: 0.5s / Mark: m2`, `Call macro: M`, `Mark: Z` with `Call macro: M` injected at tick 4..10: the body "
             "runs once for two calls (the injected code executes zero times); injected at tick 2, 3 or 11 both walkers reach the same Mark "
             "in one tick, `assert not node.completed` fails and the run stops in the error state before `Mark: Z`", cont)
